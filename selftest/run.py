#!/usr/bin/env python3
"""Must-fail corpus: every mutant (a property-breaking edit of a real file of
/repo, applied through the loader overlay, /repo untouched) must make the named
obligation fail. An engine that lets a mutant through is not trusted.
usage: run.py [--prop Cxx] [--id substr] [-j N]"""
import json, os, subprocess, sys, tempfile, concurrent.futures, argparse, re
HERE = os.path.dirname(os.path.abspath(__file__))
VERIF = os.path.dirname(HERE)
ap = argparse.ArgumentParser()
ap.add_argument("--prop"); ap.add_argument("--id"); ap.add_argument("-j", type=int, default=4)
args = ap.parse_args()
muts = json.load(open(os.path.join(HERE, "mutants.json")))
if args.prop: muts = [m for m in muts if m["property"] == args.prop]
if args.id: muts = [m for m in muts if args.id in m["id"]]
tmp = tempfile.mkdtemp(prefix="verif-mut.", dir="/var/tmp")
def run(m):
    src = open(m["file"]).read()
    if src.count(m["find"]) < 1:
        return m, "STALE", "pattern not found: %r" % m["find"]
    new = src.replace(m["find"], m["replace"], 1)
    d = os.path.join(tmp, m["id"]); os.makedirs(d, exist_ok=True)
    f = os.path.join(d, os.path.basename(m["file"])); open(f, "w").write(new)
    env = dict(os.environ, VERIF_SCRATCH=os.path.join(d, "scratch"), VERIF_DIR=d + "/verif")
    os.makedirs(d + "/verif", exist_ok=True)
    for sub in ("specs", "trusted", "harness", "known", "known_findings.json"):
        if os.path.exists(os.path.join(VERIF, sub)):
            os.symlink(os.path.join(VERIF, sub), os.path.join(d, "verif", sub))
    cmd = [os.path.join(VERIF, "bin/govc"), "check", m["property"], "--overlay", m["file"] + "=" + f]
    if m.get("fn"): cmd += ["--fn", m["fn"]]
    try:
        p = subprocess.run(cmd, env=env, capture_output=True, text=True, timeout=3000)
    except subprocess.TimeoutExpired:
        return m, "TIMEOUT", "check did not finish within 3000 s"
    out = p.stdout + p.stderr
    hit = [l for l in out.splitlines() if l.startswith("VIOLATION") and m["expect"] in l]
    if hit: return m, "CAUGHT", hit[0]
    return m, "MISSED", " | ".join([l for l in out.splitlines() if l.startswith(("VIOLATION","BROKEN","SUMMARY"))][:4])[:600]
bad = 0
with concurrent.futures.ThreadPoolExecutor(args.j) as ex:
    for m, status, info in ex.map(run, muts):
        print("%-7s %-40s %s" % (status, m["id"], info if status != "CAUGHT" else re.sub(r".*obligation=", "", info)))
        if status != "CAUGHT": bad += 1
subprocess.run(["rm", "-rf", tmp])
print("selftest: %d mutants, %d not caught" % (len(muts), bad))
sys.exit(1 if bad else 0)
