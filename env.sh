# Sourced by every script: offline Go 1.24 toolchain (the one /repo selects).
export GOTOOLCHAIN=local GOSUMDB=off GOFLAGS=-mod=mod GOPROXY=off CGO_ENABLED=1
GO=/root/go/pkg/mod/golang.org/toolchain@v0.0.1-go1.24.0.linux-amd64/bin/go
export GO
export PATH="$(dirname $GO):$PATH"
