; UTF-8 as defined by The Unicode Standard (v15), chapter 3, Table 3-6 (bit
; distribution) and Table 3-7 (well-formed byte sequences); Go decodes any
; ill-formed sequence as U+FFFD of width 1 and encodes invalid code points
; (surrogates, values above U+10FFFF, negatives) as U+FFFD (EF BF BD).
; Written from the tables, not from the code under verification.
(define-fun u8in ((b (_ BitVec 8)) (lo (_ BitVec 8)) (hi (_ BitVec 8))) Bool (and (bvule lo b) (bvule b hi)))
(define-fun utf8_wf2 ((b0 (_ BitVec 8)) (b1 (_ BitVec 8))) Bool
  (and (u8in b0 #xC2 #xDF) (u8in b1 #x80 #xBF)))
(define-fun utf8_wf3 ((b0 (_ BitVec 8)) (b1 (_ BitVec 8)) (b2 (_ BitVec 8))) Bool
  (and (or (and (= b0 #xE0) (u8in b1 #xA0 #xBF))
           (and (u8in b0 #xE1 #xEC) (u8in b1 #x80 #xBF))
           (and (= b0 #xED) (u8in b1 #x80 #x9F))
           (and (u8in b0 #xEE #xEF) (u8in b1 #x80 #xBF)))
       (u8in b2 #x80 #xBF)))
(define-fun utf8_wf4 ((b0 (_ BitVec 8)) (b1 (_ BitVec 8)) (b2 (_ BitVec 8)) (b3 (_ BitVec 8))) Bool
  (and (or (and (= b0 #xF0) (u8in b1 #x90 #xBF))
           (and (u8in b0 #xF1 #xF3) (u8in b1 #x80 #xBF))
           (and (= b0 #xF4) (u8in b1 #x80 #x8F)))
       (u8in b2 #x80 #xBF) (u8in b3 #x80 #xBF)))
(define-fun utf8_z ((b (_ BitVec 8))) (_ BitVec 32) ((_ zero_extend 24) b))
(define-fun utf8_val2 ((b0 (_ BitVec 8)) (b1 (_ BitVec 8))) (_ BitVec 32)
  (bvor (bvshl (bvand (utf8_z b0) #x0000001F) #x00000006) (bvand (utf8_z b1) #x0000003F)))
(define-fun utf8_val3 ((b0 (_ BitVec 8)) (b1 (_ BitVec 8)) (b2 (_ BitVec 8))) (_ BitVec 32)
  (bvor (bvshl (bvand (utf8_z b0) #x0000000F) #x0000000C) (bvshl (bvand (utf8_z b1) #x0000003F) #x00000006) (bvand (utf8_z b2) #x0000003F)))
(define-fun utf8_val4 ((b0 (_ BitVec 8)) (b1 (_ BitVec 8)) (b2 (_ BitVec 8)) (b3 (_ BitVec 8))) (_ BitVec 32)
  (bvor (bvshl (bvand (utf8_z b0) #x00000007) #x00000012) (bvshl (bvand (utf8_z b1) #x0000003F) #x0000000C)
        (bvshl (bvand (utf8_z b2) #x0000003F) #x00000006) (bvand (utf8_z b3) #x0000003F)))
;; sig utf8_dec_rune(u8,u8,u8,u8,i64) i32
(define-fun utf8_dec_rune ((b0 (_ BitVec 8)) (b1 (_ BitVec 8)) (b2 (_ BitVec 8)) (b3 (_ BitVec 8)) (avail (_ BitVec 64))) (_ BitVec 32)
  (ite (bvult b0 #x80) (utf8_z b0)
  (ite (and (bvsge avail (_ bv2 64)) (utf8_wf2 b0 b1)) (utf8_val2 b0 b1)
  (ite (and (bvsge avail (_ bv3 64)) (utf8_wf3 b0 b1 b2)) (utf8_val3 b0 b1 b2)
  (ite (and (bvsge avail (_ bv4 64)) (utf8_wf4 b0 b1 b2 b3)) (utf8_val4 b0 b1 b2 b3)
  #x0000FFFD)))))
;; sig utf8_dec_size(u8,u8,u8,u8,i64) i64
(define-fun utf8_dec_size ((b0 (_ BitVec 8)) (b1 (_ BitVec 8)) (b2 (_ BitVec 8)) (b3 (_ BitVec 8)) (avail (_ BitVec 64))) (_ BitVec 64)
  (ite (bvult b0 #x80) (_ bv1 64)
  (ite (and (bvsge avail (_ bv2 64)) (utf8_wf2 b0 b1)) (_ bv2 64)
  (ite (and (bvsge avail (_ bv3 64)) (utf8_wf3 b0 b1 b2)) (_ bv3 64)
  (ite (and (bvsge avail (_ bv4 64)) (utf8_wf4 b0 b1 b2 b3)) (_ bv4 64)
  (_ bv1 64))))))
;; sig utf8_scalar(i32) bool
(define-fun utf8_scalar ((r (_ BitVec 32))) Bool
  (and (bvsle #x00000000 r) (bvsle r #x0010FFFF) (not (and (bvsle #x0000D800 r) (bvsle r #x0000DFFF)))))
; what gets encoded: the code point itself, or U+FFFD for a non-scalar value
(define-fun utf8_eff ((r (_ BitVec 32))) (_ BitVec 32) (ite (utf8_scalar r) r #x0000FFFD))
;; sig utf8_enc_len(i32) i64
(define-fun utf8_enc_len ((r (_ BitVec 32))) (_ BitVec 64)
  (let ((c (utf8_eff r)))
  (ite (bvule c #x0000007F) (_ bv1 64) (ite (bvule c #x000007FF) (_ bv2 64) (ite (bvule c #x0000FFFF) (_ bv3 64) (_ bv4 64))))))
(define-fun utf8_lo8 ((x (_ BitVec 32))) (_ BitVec 8) ((_ extract 7 0) x))
(define-fun utf8_cont ((c (_ BitVec 32)) (sh (_ BitVec 32))) (_ BitVec 8)
  (bvor #x80 (bvand (utf8_lo8 (bvlshr c sh)) #x3F)))
;; sig utf8_enc_byte(i32,i64) u8
(define-fun utf8_enc_byte ((r (_ BitVec 32)) (j (_ BitVec 64))) (_ BitVec 8)
  (let ((c (utf8_eff r)))
  (ite (bvule c #x0000007F) (utf8_lo8 c)
  (ite (bvule c #x000007FF)
       (ite (= j (_ bv0 64)) (bvor #xC0 (utf8_lo8 (bvlshr c #x00000006))) (utf8_cont c #x00000000))
  (ite (bvule c #x0000FFFF)
       (ite (= j (_ bv0 64)) (bvor #xE0 (utf8_lo8 (bvlshr c #x0000000C)))
       (ite (= j (_ bv1 64)) (utf8_cont c #x00000006) (utf8_cont c #x00000000)))
       (ite (= j (_ bv0 64)) (bvor #xF0 (utf8_lo8 (bvlshr c #x00000012)))
       (ite (= j (_ bv1 64)) (utf8_cont c #x0000000C)
       (ite (= j (_ bv2 64)) (utf8_cont c #x00000006) (utf8_cont c #x00000000)))))))))
