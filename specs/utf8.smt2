; UTF-8 per The Unicode Standard, Table 3-7 (well-formed byte sequences)
