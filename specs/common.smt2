; common spec functions (none yet)
