; Complex division as the Go toolchain defines it (runtime.complex128div: Smith's
; algorithm followed by the C99 Annex G.5.1 corrections), written over the SMT-LIB
; floating-point theory. Transcribed from the Go specification's reference
; implementation ($GOROOT/src/runtime/complex.go, float.go), NOT from llgo.
;   * isNaN / isInf / isFinite / abs are the theory's own predicates/functions;
;   * copysign takes the sign of its second argument; a NaN carries no sign here
;     (SMT-LIB has a single NaN; Go's specification does not distinguish NaNs);
;   * products and quotients are written with ufpmul64 / ufpdiv64, which the
;     checker first leaves uninterpreted (shared with the code side) and, on a
;     `sat` answer, defines as fp.mul / fp.div RNE.
(define-sort CDF () (_ FloatingPoint 11 53))
(define-fun cd_zero () CDF (_ +zero 11 53))
(define-fun cd_one () CDF ((_ to_fp 11 53) RNE 1.0))
;; const cd_inf f64
(define-fun cd_inf () CDF (_ +oo 11 53))
;; sig cd_copysign(f64,f64) f64
(define-fun cd_copysign ((x CDF) (y CDF)) CDF (ite (fp.isNegative y) (fp.neg (fp.abs x)) (fp.abs x)))
(define-fun cd_finite ((x CDF)) Bool (and (not (fp.isNaN x)) (not (fp.isInfinite x))))
;; sig cd_inf2one(f64) f64
(define-fun cd_inf2one ((x CDF)) CDF (cd_copysign (ite (fp.isInfinite x) cd_one cd_zero) x))
(define-fun cd_first ((c CDF) (d CDF)) Bool (fp.geq (fp.abs c) (fp.abs d)))
; Smith's algorithm
(define-fun cd_e1 ((a CDF) (b CDF) (c CDF) (d CDF)) CDF
  (ite (cd_first c d)
    (let ((ratio (ufpdiv64 d c))) (let ((denom (fp.add RNE c (ufpmul64 ratio d))))
      (ufpdiv64 (fp.add RNE a (ufpmul64 b ratio)) denom)))
    (let ((ratio (ufpdiv64 c d))) (let ((denom (fp.add RNE d (ufpmul64 ratio c))))
      (ufpdiv64 (fp.add RNE (ufpmul64 a ratio) b) denom)))))
(define-fun cd_f1 ((a CDF) (b CDF) (c CDF) (d CDF)) CDF
  (ite (cd_first c d)
    (let ((ratio (ufpdiv64 d c))) (let ((denom (fp.add RNE c (ufpmul64 ratio d))))
      (ufpdiv64 (fp.sub RNE b (ufpmul64 a ratio)) denom)))
    (let ((ratio (ufpdiv64 c d))) (let ((denom (fp.add RNE d (ufpmul64 ratio c))))
      (ufpdiv64 (fp.sub RNE (ufpmul64 b ratio) a) denom)))))
(define-fun cd_case0 ((a CDF) (b CDF) (c CDF) (d CDF)) Bool
  (and (fp.eq c cd_zero) (fp.eq d cd_zero) (or (not (fp.isNaN a)) (not (fp.isNaN b)))))
(define-fun cd_case1 ((a CDF) (b CDF) (c CDF) (d CDF)) Bool
  (and (or (fp.isInfinite a) (fp.isInfinite b)) (cd_finite c) (cd_finite d)))
(define-fun cd_case2 ((a CDF) (b CDF) (c CDF) (d CDF)) Bool
  (and (or (fp.isInfinite c) (fp.isInfinite d)) (cd_finite a) (cd_finite b)))
;; sig c128div_re(f64,f64,f64,f64) f64
(define-fun c128div_re ((a CDF) (b CDF) (c CDF) (d CDF)) CDF
  (let ((e (cd_e1 a b c d)) (f (cd_f1 a b c d)))
  (ite (not (and (fp.isNaN e) (fp.isNaN f))) e
  (ite (cd_case0 a b c d) (ufpmul64 (cd_copysign cd_inf c) a)
  (ite (cd_case1 a b c d) (ufpmul64 cd_inf (fp.add RNE (ufpmul64 (cd_inf2one a) c) (ufpmul64 (cd_inf2one b) d)))
  (ite (cd_case2 a b c d) (ufpmul64 cd_zero (fp.add RNE (ufpmul64 a (cd_inf2one c)) (ufpmul64 b (cd_inf2one d))))
  e))))))
;; sig c128div_im(f64,f64,f64,f64) f64
(define-fun c128div_im ((a CDF) (b CDF) (c CDF) (d CDF)) CDF
  (let ((e (cd_e1 a b c d)) (f (cd_f1 a b c d)))
  (ite (not (and (fp.isNaN e) (fp.isNaN f))) f
  (ite (cd_case0 a b c d) (ufpmul64 (cd_copysign cd_inf c) b)
  (ite (cd_case1 a b c d) (ufpmul64 cd_inf (fp.sub RNE (ufpmul64 (cd_inf2one b) c) (ufpmul64 (cd_inf2one a) d)))
  (ite (cd_case2 a b c d) (ufpmul64 cd_zero (fp.sub RNE (ufpmul64 b (cd_inf2one c)) (ufpmul64 a (cd_inf2one d))))
  f))))))
