; Abstract string identities (the value of strrank: an injective function of a
; string's contents) and the TRUSTED lemmas about path/filepath and strings that
; the confinement argument of C20 rests on. confined(p, d): lexically, p lies
; strictly below Clean(d). These axioms are assumptions about the Go standard
; library, not proved here.
(declare-fun sjoin2 (Int Int) Int)      ; filepath.Join(a, b)
(declare-fun sclean (Int) Int)          ; filepath.Clean(a)
(declare-fun sdir (Int) Int)            ; filepath.Dir(a)
(define-fun sconcat ((a Int) (b Int)) Int (sconcat_id a b))     ; a + b (sconcat_id: declared by the engine)
(define-fun sid_sep () Int (strlit_id 2043925204))            ; the string "/" = string(os.PathSeparator) on the supported hosts
(declare-fun shasprefix (Int Int) Bool) ; strings.HasPrefix(a, b)
(declare-fun scleaned (Int) Bool)       ; a == filepath.Clean(a)
(declare-fun confined (Int Int) Bool)   ; a lies strictly below Clean(d)
;; sig sjoin2(rank,rank) rank
;; sig sclean(rank) rank
;; sig sdir(rank) rank
;; sig sconcat(rank,rank) rank
;; sig sid_sep() rank
;; sig shasprefix(rank,rank) bool
;; sig scleaned(rank) bool
;; sig confined(rank,rank) bool
; filepath.Join returns a Clean'ed path
(assert (forall ((a Int) (b Int)) (! (scleaned (sjoin2 a b)) :pattern ((sjoin2 a b)))))
; a cleaned path that starts with Clean(d)+separator lies strictly below Clean(d)
(assert (forall ((t Int) (d Int)) (! (=> (and (scleaned t) (shasprefix t (sconcat (sclean d) sid_sep))) (confined t d))
   :pattern ((shasprefix t (sconcat (sclean d) sid_sep))))))
;; sig pathok(rank,rank) bool
; pathok(p, d): p is confined below d, or is Clean(d) itself
(define-fun pathok ((p Int) (d Int)) Bool (or (confined p d) (= p (sclean d))))
; the parent directory of a confined path is confined or is Clean(d) itself
(assert (forall ((t Int) (d Int)) (! (=> (confined t d) (pathok (sdir t) d)) :pattern ((confined t d) (sdir t)))))
