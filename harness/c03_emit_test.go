package ssa

// Harness injected into package ssa by /verif/govc (go test -overlay): calls
// the REAL Builder.IndexAddr / Index / Slice on LLVM parameters for every
// index type and prints the emitted IR (see c02_emit_test.go for the idea).

import (
	"fmt"
	"go/importer"
	"go/token"
	"go/types"
	"os"
	"strings"
	"testing"

	"github.com/goplus/gogen/packages"
)

func TestZZVerifEmit(t *testing.T) {
	out := os.Getenv("VERIF_EMIT_OUT")
	if out == "" {
		t.Skip("VERIF_EMIT_OUT not set")
	}
	kinds := []types.BasicKind{types.Int8, types.Int16, types.Int32, types.Int64, types.Int,
		types.Uint8, types.Uint16, types.Uint32, types.Uint64, types.Uint, types.Uintptr}
	prog := NewProgram(nil)
	prog.SetRuntime(func() *types.Package {
		fset := token.NewFileSet()
		imp := packages.NewImporter(fset)
		if pkg, _ := imp.Import(PkgRuntime); pkg != nil && pkg.Scope().Lookup("structtype") != nil {
			return pkg
		}
		pkg, err := importer.For("source", nil).Import(PkgRuntime)
		if err != nil {
			t.Fatal(err)
		}
		return pkg
	})
	pkg := prog.NewPackage("zz", "zz")
	mk := func(name string, params []types.Type, res types.Type, body func(b Builder, fn Function) Expr) {
		defer func() {
			if r := recover(); r != nil {
				fmt.Fprintf(os.Stderr, "ZZCASE-PANIC %s: %v\n", name, r)
			}
		}()
		var vars []*types.Var
		for i, p := range params {
			vars = append(vars, types.NewVar(0, nil, fmt.Sprintf("a%d", i), p))
		}
		sig := types.NewSignatureType(nil, nil, nil, types.NewTuple(vars...), types.NewTuple(types.NewVar(0, nil, "", res)), false)
		fn := pkg.NewFunc(name, sig, InGo)
		b := fn.MakeBody(1)
		ret := body(b, fn)
		b.Return(ret)
		b.EndBuild()
	}
	i64 := types.Typ[types.Int64]
	sliceT := types.NewSlice(i64)
	strT := types.Typ[types.String]
	byteT := types.Typ[types.Byte]
	lens := []int64{1, 100, 300}
	for _, k := range kinds {
		k := k
		T := types.Typ[k]
		// array lengths around the largest value of the index type as well: "this index
		// type cannot reach the length" shortcuts are decided exactly at that boundary
		klens := append([]int64{}, lens...)
		if kb := uint(prog.SizeOf(prog.Type(T, InGo)) * 8); kb <= 32 {
			max := int64(1)<<kb - 1
			if T.Info()&types.IsUnsigned == 0 {
				max = int64(1)<<(kb-1) - 1
			}
			klens = append(klens, max-1, max, max+1)
		}
		for _, n := range klens {
			n := n
			arrp := types.NewPointer(types.NewArray(i64, n))
			mk(fmt.Sprintf("index__arrptr__%s__%d", T.Name(), n), []types.Type{arrp, T}, i64, func(b Builder, fn Function) Expr {
				return b.Load(b.IndexAddr(fn.Param(0), fn.Param(1)))
			})
		}
		mk(fmt.Sprintf("index__slice__%s__len", T.Name()), []types.Type{sliceT, T}, i64, func(b Builder, fn Function) Expr {
			return b.Load(b.IndexAddr(fn.Param(0), fn.Param(1)))
		})
		mk(fmt.Sprintf("index__string__%s__len", T.Name()), []types.Type{strT, T}, byteT, func(b Builder, fn Function) Expr {
			return b.Index(fn.Param(0), fn.Param(1), nil)
		})
		mk(fmt.Sprintf("slice__slice__%s__ij", T.Name()), []types.Type{sliceT, T, T}, sliceT, func(b Builder, fn Function) Expr {
			return b.Slice(fn.Param(0), fn.Param(1), fn.Param(2), Expr{})
		})
		mk(fmt.Sprintf("makeslice__slice__%s__lc", T.Name()), []types.Type{T, T}, sliceT, func(b Builder, fn Function) Expr {
			return b.MakeSlice(prog.Type(sliceT, InGo), fn.Param(0), fn.Param(1))
		})
		mk(fmt.Sprintf("makeslice__zslice__%s__lc", T.Name()), []types.Type{T, T}, types.NewSlice(types.NewStruct(nil, nil)), func(b Builder, fn Function) Expr {
			return b.MakeSlice(prog.Type(types.NewSlice(types.NewStruct(nil, nil)), InGo), fn.Param(0), fn.Param(1))
		})
		mk(fmt.Sprintf("slice__string__%s__ij", T.Name()), []types.Type{strT, T, T}, strT, func(b Builder, fn Function) Expr {
			return b.Slice(fn.Param(0), fn.Param(1), fn.Param(2), Expr{})
		})
		// constant indexes (go/ssa lifts `i := uint8(200); a[i]` to a constant operand)
		bits := uint(prog.SizeOf(prog.Type(T, InGo)) * 8)
		unsigned := T.Info()&types.IsUnsigned != 0
		var cs []uint64
		if unsigned {
			cs = []uint64{0, 1, 99, 100, 101, 127, 128, 200, 255, (uint64(1) << (bits - 1)), ^uint64(0) >> (64 - bits)}
		} else {
			cs = []uint64{0, 1, 99, 100, 101, 127, (uint64(1) << (bits - 1)) - 1}
		}
		seen := map[uint64]bool{}
		for _, cv := range cs {
			cv := cv
			if bits < 64 && cv >= (uint64(1)<<bits) {
				continue
			}
			if !unsigned && cv >= (uint64(1)<<(bits-1)) {
				continue
			}
			if seen[cv] {
				continue
			}
			seen[cv] = true
			arrp := types.NewPointer(types.NewArray(i64, 100))
			mk(fmt.Sprintf("indexc__arrptr__%s__%d__100", T.Name(), cv), []types.Type{arrp}, i64, func(b Builder, fn Function) Expr {
				return b.Load(b.IndexAddr(fn.Param(0), prog.IntVal(cv, prog.Type(T, InGo))))
			})
		}
	}
	// type assertions: x.(T) and v, ok := x.(T) for interface operands of both
	// representations and asserted types of every kind the lowering distinguishes
	var taInfo strings.Builder
	{
		tpkg := types.NewPackage("zz", "zz")
		errT := types.Universe.Lookup("error").Type()
		anyT := types.NewInterfaceType(nil, nil)
		anyT.Complete()
		strSig := types.NewSignatureType(nil, nil, nil, nil, types.NewTuple(types.NewVar(0, nil, "", strT)), false)
		stringerI := types.NewInterfaceType([]*types.Func{types.NewFunc(0, tpkg, "String", strSig)}, nil)
		stringerI.Complete()
		stringer := types.NewNamed(types.NewTypeName(0, tpkg, "Stringer", nil), stringerI, nil)
		emptyNamed := types.NewNamed(types.NewTypeName(0, tpkg, "Empty", nil), anyT, nil)
		namedInt := types.NewNamed(types.NewTypeName(0, tpkg, "N", nil), types.Typ[types.Int], nil)
		structT := types.NewStruct([]*types.Var{types.NewField(0, tpkg, "A", i64, false)}, nil)
		fnT := types.NewSignatureType(nil, nil, nil, nil, nil, false)
		srcs := []struct {
			name string
			t    types.Type
			rep  string
		}{{"any", anyT, "eface"}, {"error", errT, "iface"}, {"Stringer", stringer, "iface"}}
		dsts := []struct {
			name string
			t    types.Type
		}{{"any", anyT}, {"Empty", emptyNamed}, {"error", errT}, {"Stringer", stringer}, {"int", types.Typ[types.Int]}, {"string", strT},
			{"ptr", types.NewPointer(i64)}, {"struct", structT}, {"array", types.NewArray(i64, 2)}, {"N", namedInt}, {"func", fnT}, {"slice", sliceT}}
		for _, sc := range srcs {
			for _, ds := range dsts {
				for _, commaOk := range []bool{true, false} {
					sc, ds, commaOk := sc, ds, commaOk
					mode := "must"
					if commaOk {
						mode = "ok"
					}
					name := fmt.Sprintf("typeassert__%s__%s__%s", sc.name, ds.name, mode)
					func() {
						defer func() {
							if r := recover(); r != nil {
								fmt.Fprintf(os.Stderr, "ZZCASE-PANIC %s: %v\n", name, r)
							}
						}()
						params := types.NewTuple(types.NewVar(0, nil, "x", sc.t))
						res := types.NewTuple(types.NewVar(0, nil, "", ds.t))
						if commaOk {
							res = types.NewTuple(types.NewVar(0, nil, "", ds.t), types.NewVar(0, nil, "", types.Typ[types.Bool]))
						}
						fn := pkg.NewFunc(name, types.NewSignatureType(nil, nil, nil, params, res, false), InGo)
						b := fn.MakeBody(1)
						at := prog.Type(ds.t, InGo)
						r := b.TypeAssert(fn.Param(0), at, commaOk)
						b.Return(r)
						b.EndBuild()
						kind := "concrete"
						switch {
						case fn.Param(0).RawType() == at.RawType():
							kind = "same"
						case types.IsInterface(ds.t):
							kind = "iface"
						case at.kind == vkClosure:
							kind = "closure"
						}
						desc, _ := prog.abi.TypeName(at.raw.Type)
						fmt.Fprintf(&taInfo, "; ZZTA fn=%s kind=%s src=%s desc=%s\n", name, kind, sc.rep, desc)
					}()
				}
			}
		}
	}
	if err := os.WriteFile(out, []byte(pkg.String()+"\n"+taInfo.String()), 0o644); err != nil {
		t.Fatal(err)
	}
}
