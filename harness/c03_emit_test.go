package ssa

// Harness injected into package ssa by /verif/govc (go test -overlay): calls
// the REAL Builder.IndexAddr / Index / Slice on LLVM parameters for every
// index type and prints the emitted IR (see c02_emit_test.go for the idea).

import (
	"fmt"
	"go/token"
	"go/types"
	"os"
	"testing"

	"github.com/goplus/gogen/packages"
)

func TestZZVerifEmit(t *testing.T) {
	out := os.Getenv("VERIF_EMIT_OUT")
	if out == "" {
		t.Skip("VERIF_EMIT_OUT not set")
	}
	kinds := []types.BasicKind{types.Int8, types.Int16, types.Int32, types.Int64, types.Int,
		types.Uint8, types.Uint16, types.Uint32, types.Uint64, types.Uint, types.Uintptr}
	prog := NewProgram(nil)
	prog.SetRuntime(func() *types.Package {
		fset := token.NewFileSet()
		imp := packages.NewImporter(fset)
		pkg, _ := imp.Import(PkgRuntime)
		return pkg
	})
	pkg := prog.NewPackage("zz", "zz")
	mk := func(name string, params []types.Type, res types.Type, body func(b Builder, fn Function) Expr) {
		defer func() {
			if r := recover(); r != nil {
				fmt.Fprintf(os.Stderr, "ZZCASE-PANIC %s: %v\n", name, r)
			}
		}()
		var vars []*types.Var
		for i, p := range params {
			vars = append(vars, types.NewVar(0, nil, fmt.Sprintf("a%d", i), p))
		}
		sig := types.NewSignatureType(nil, nil, nil, types.NewTuple(vars...), types.NewTuple(types.NewVar(0, nil, "", res)), false)
		fn := pkg.NewFunc(name, sig, InGo)
		b := fn.MakeBody(1)
		ret := body(b, fn)
		b.Return(ret)
		b.EndBuild()
	}
	i64 := types.Typ[types.Int64]
	sliceT := types.NewSlice(i64)
	strT := types.Typ[types.String]
	byteT := types.Typ[types.Byte]
	lens := []int64{1, 100, 300}
	for _, k := range kinds {
		k := k
		T := types.Typ[k]
		for _, n := range lens {
			n := n
			arrp := types.NewPointer(types.NewArray(i64, n))
			mk(fmt.Sprintf("index__arrptr__%s__%d", T.Name(), n), []types.Type{arrp, T}, i64, func(b Builder, fn Function) Expr {
				return b.Load(b.IndexAddr(fn.Param(0), fn.Param(1)))
			})
		}
		mk(fmt.Sprintf("index__slice__%s__len", T.Name()), []types.Type{sliceT, T}, i64, func(b Builder, fn Function) Expr {
			return b.Load(b.IndexAddr(fn.Param(0), fn.Param(1)))
		})
		mk(fmt.Sprintf("index__string__%s__len", T.Name()), []types.Type{strT, T}, byteT, func(b Builder, fn Function) Expr {
			return b.Index(fn.Param(0), fn.Param(1), nil)
		})
		mk(fmt.Sprintf("slice__slice__%s__ij", T.Name()), []types.Type{sliceT, T, T}, sliceT, func(b Builder, fn Function) Expr {
			return b.Slice(fn.Param(0), fn.Param(1), fn.Param(2), Expr{})
		})
		mk(fmt.Sprintf("slice__string__%s__ij", T.Name()), []types.Type{strT, T, T}, strT, func(b Builder, fn Function) Expr {
			return b.Slice(fn.Param(0), fn.Param(1), fn.Param(2), Expr{})
		})
		// constant indexes (go/ssa lifts `i := uint8(200); a[i]` to a constant operand)
		bits := uint(prog.SizeOf(prog.Type(T, InGo)) * 8)
		unsigned := T.Info()&types.IsUnsigned != 0
		var cs []uint64
		if unsigned {
			cs = []uint64{0, 1, 99, 100, 101, 127, 128, 200, 255, (uint64(1) << (bits - 1)), ^uint64(0) >> (64 - bits)}
		} else {
			cs = []uint64{0, 1, 99, 100, 101, 127, (uint64(1) << (bits - 1)) - 1}
		}
		seen := map[uint64]bool{}
		for _, cv := range cs {
			cv := cv
			if bits < 64 && cv >= (uint64(1)<<bits) {
				continue
			}
			if !unsigned && cv >= (uint64(1)<<(bits-1)) {
				continue
			}
			if seen[cv] {
				continue
			}
			seen[cv] = true
			arrp := types.NewPointer(types.NewArray(i64, 100))
			mk(fmt.Sprintf("indexc__arrptr__%s__%d__100", T.Name(), cv), []types.Type{arrp}, i64, func(b Builder, fn Function) Expr {
				return b.Load(b.IndexAddr(fn.Param(0), prog.IntVal(cv, prog.Type(T, InGo))))
			})
		}
	}
	if err := os.WriteFile(out, []byte(pkg.String()), 0o644); err != nil {
		t.Fatal(err)
	}
}
