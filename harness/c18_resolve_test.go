// BOUNDED stand-in for the resolution clauses of C18 that the contracts do not
// decide (fold ORDER over the inheritance forest; missing and CYCLIC parents end
// with an error, never with a hang or a crash). Labelled bounded, never counted
// as proved. The real Loader.Load is run on EVERY inheritance graph of the two
// families below and compared with an independent resolver written from the
// property statement (reflection over the fields of Config: nothing of
// mergeConfig/resolveInheritance is re-used):
//
//	graphs3: 3 targets, each inheriting from any sequence of length 0..2 over
//	         {a, b, c, <missing>} (9261 graphs, most of them cyclic)
//	dags4:   4 targets, each inheriting from any sequence of length 0..2 over the
//	         EARLIER targets (273 DAGs: chains, diamonds, shared ancestors reached
//	         at different depths, a parent named twice)
//
// Cyclic graphs are loaded in a CHILD process (a stack overflow is fatal and a
// hang has to be killed); the child announces each case before it loads it, so a
// crash or hang is reported with the exact graph.
package targets

import (
	"bufio"
	"fmt"
	"os"
	"os/exec"
	"reflect"
	"strings"
	"testing"
	"time"
)

type zzGraph struct {
	names    []string
	inherits [][]string
}

func (g zzGraph) String() string {
	var parts []string
	for i, n := range g.names {
		parts = append(parts, fmt.Sprintf("%s<-[%s]", n, strings.Join(g.inherits[i], ",")))
	}
	return strings.Join(parts, " ")
}

// own settings of target number i: which fields it defines depends on (i, field index)
func zzOwn(i int, name string) Config {
	var c Config
	v := reflect.ValueOf(&c).Elem()
	for k := 0; k < v.NumField(); k++ {
		f := v.Type().Field(k)
		if f.Name == "Name" {
			continue
		}
		switch f.Type.Kind() {
		case reflect.String:
			if (i+k)%2 == 0 {
				v.Field(k).SetString(f.Name + "@" + name)
			}
		case reflect.Bool:
			if (i+k)%4 == 0 {
				v.Field(k).SetBool(true)
			}
		case reflect.Slice:
			switch (i + k) % 3 {
			case 0:
				v.Field(k).Set(reflect.ValueOf([]string{f.Name + "@" + name}))
			case 1:
				v.Field(k).Set(reflect.ValueOf([]string{f.Name + "1@" + name, f.Name + "2@" + name}))
			}
		}
	}
	return c
}

// zzMerge: the property's law, field by field (scalars override when set, bools or, lists append)
func zzMerge(dst *Config, src Config) {
	d, s := reflect.ValueOf(dst).Elem(), reflect.ValueOf(src)
	for k := 0; k < d.NumField(); k++ {
		if d.Type().Field(k).Name == "Name" {
			continue
		}
		switch d.Field(k).Kind() {
		case reflect.String:
			if s.Field(k).String() != "" {
				d.Field(k).SetString(s.Field(k).String())
			}
		case reflect.Bool:
			if s.Field(k).Bool() {
				d.Field(k).SetBool(true)
			}
		case reflect.Slice:
			all := append([]string{}, d.Field(k).Interface().([]string)...)
			all = append(all, s.Field(k).Interface().([]string)...)
			d.Field(k).Set(reflect.ValueOf(all))
		}
	}
}

// zzResolve: reference resolution; ok=false for a missing or cyclic parent
func zzResolve(g zzGraph, name string, path map[string]bool) (Config, bool) {
	idx := -1
	for i, n := range g.names {
		if n == name {
			idx = i
		}
	}
	if idx < 0 || path[name] {
		return Config{}, false
	}
	own := zzOwn(idx, name)
	if len(g.inherits[idx]) == 0 {
		own.Name = name
		return own, true
	}
	path[name] = true
	defer delete(path, name)
	res := Config{Name: name}
	for _, p := range g.inherits[idx] {
		pc, ok := zzResolve(g, p, path)
		if !ok {
			return Config{}, false
		}
		zzMerge(&res, pc)
	}
	zzMerge(&res, own)
	return res, true
}

func zzCyclicFrom(g zzGraph, name string, path map[string]bool) bool {
	idx := -1
	for i, n := range g.names {
		if n == name {
			idx = i
		}
	}
	if idx < 0 {
		return false
	}
	if path[name] {
		return true
	}
	path[name] = true
	defer delete(path, name)
	for _, p := range g.inherits[idx] {
		if zzCyclicFrom(g, p, path) {
			return true
		}
	}
	return false
}

func zzLoader(g zzGraph, dir string) *Loader {
	l := NewLoader(dir) // empty directory: every name that is not pre-loaded is a missing file
	for i, n := range g.names {
		raw := &RawConfig{Inherits: append([]string(nil), g.inherits[i]...), Config: zzOwn(i, n)}
		raw.Name = n
		l.cache[n] = raw
	}
	return l
}

func zzSame(a *Config, b Config) string {
	x, y := reflect.ValueOf(a).Elem(), reflect.ValueOf(b)
	for k := 0; k < x.NumField(); k++ {
		switch x.Field(k).Kind() {
		case reflect.Slice:
			p, q := x.Field(k).Interface().([]string), y.Field(k).Interface().([]string)
			if len(p) != len(q) {
				return fmt.Sprintf("%s = %v, want %v", x.Type().Field(k).Name, p, q)
			}
			for i := range p {
				if p[i] != q[i] {
					return fmt.Sprintf("%s = %v, want %v", x.Type().Field(k).Name, p, q)
				}
			}
		default:
			if x.Field(k).Interface() != y.Field(k).Interface() {
				return fmt.Sprintf("%s = %v, want %v", x.Type().Field(k).Name, x.Field(k).Interface(), y.Field(k).Interface())
			}
		}
	}
	return ""
}

func zzSeqs(over []string, maxLen int) [][]string {
	out := [][]string{nil}
	cur := [][]string{nil}
	for l := 1; l <= maxLen; l++ {
		var next [][]string
		for _, s := range cur {
			for _, o := range over {
				next = append(next, append(append([]string{}, s...), o))
			}
		}
		out = append(out, next...)
		cur = next
	}
	return out
}

func zzFamilies() (graphs3, dags4 []zzGraph) {
	names := []string{"a", "b", "c"}
	seqs := zzSeqs([]string{"a", "b", "c", "zzmissing"}, 2)
	for _, sa := range seqs {
		for _, sb := range seqs {
			for _, sc := range seqs {
				graphs3 = append(graphs3, zzGraph{names, [][]string{sa, sb, sc}})
			}
		}
	}
	n4 := []string{"core", "chip", "soft", "board"}
	for _, s1 := range zzSeqs(n4[:1], 2) {
		for _, s2 := range zzSeqs(n4[:2], 2) {
			for _, s3 := range zzSeqs(n4[:3], 2) {
				dags4 = append(dags4, zzGraph{n4, [][]string{nil, s1, s2, s3}})
			}
		}
	}
	return
}

// zzCheck loads every target of g with a fresh Loader and compares with the reference.
// onlyCyclic selects the (graph, start) pairs that reach a cycle; announce prints each case first.
func zzCheck(g zzGraph, dir, fam string, onlyCyclic, announce bool) (cases, bad int) {
	for _, start := range g.names {
		cyc := zzCyclicFrom(g, start, map[string]bool{})
		if cyc != onlyCyclic {
			continue
		}
		cases++
		if announce {
			os.Stdout.WriteString(fmt.Sprintf("ZZCASE [%s] Load(%s) in %s\n", fam, start, g))
		}
		l := zzLoader(g, dir)
		got, err := l.Load(start)
		want, ok := zzResolve(g, start, map[string]bool{})
		switch {
		case !ok && err == nil:
			bad++
			fmt.Printf("ZZFAIL [%s] Load(%s) in %s: a parent is missing or the inheritance is cyclic, but no error was returned\n", fam, start, g)
		case ok && err != nil:
			bad++
			fmt.Printf("ZZFAIL [%s] Load(%s) in %s: acyclic and complete, but Load fails: %v\n", fam, start, g, err)
		case ok:
			if d := zzSame(got, want); d != "" {
				bad++
				fmt.Printf("ZZFAIL [%s] Load(%s) in %s: %s\n", fam, start, g, d)
			}
		}
		// a second Load on the same Loader must give the same answer (no state left behind)
		if ok && err == nil {
			got2, err2 := l.Load(start)
			if err2 != nil {
				bad++
				fmt.Printf("ZZFAIL [%s] second Load(%s) in %s on the same Loader fails: %v\n", fam, start, g, err2)
			} else if d := zzSame(got2, want); d != "" {
				bad++
				fmt.Printf("ZZFAIL [%s] second Load(%s) in %s on the same Loader: %s\n", fam, start, g, d)
			}
		}
	}
	return
}

func TestZZVerifResolve(t *testing.T) {
	if os.Getenv("VERIF_C18") == "" {
		t.Skip("VERIF_C18 not set")
	}
	dir := t.TempDir()
	graphs3, dags4 := zzFamilies()
	if os.Getenv("ZZCHILD") != "" {
		cases, bad := 0, 0
		for _, g := range graphs3 {
			c, b := zzCheck(g, dir, "graphs3", true, true)
			cases, bad = cases+c, bad+b
		}
		fmt.Printf("ZZCHILDDONE cases=%d failures=%d\n", cases, bad)
		return
	}
	// acyclic cases in this process
	cases, bad := 0, 0
	for _, g := range graphs3 {
		c, b := zzCheck(g, dir, "graphs3", false, false)
		cases, bad = cases+c, bad+b
	}
	// cyclic cases in a child process of this test binary
	cmd := exec.Command(os.Args[0], "-test.run", "^TestZZVerifResolve$", "-test.v")
	cmd.Env = append(os.Environ(), "ZZCHILD=1")
	out, err := cmd.StdoutPipe()
	if err != nil {
		t.Fatal(err)
	}
	cmd.Stderr = nil
	if err := cmd.Start(); err != nil {
		t.Fatal(err)
	}
	timer := time.AfterFunc(120*time.Second, func() { cmd.Process.Kill() })
	last, done := "", false
	sc := bufio.NewScanner(out)
	sc.Buffer(make([]byte, 1<<20), 1<<20)
	for sc.Scan() {
		line := sc.Text()
		switch {
		case strings.HasPrefix(line, "ZZCASE "):
			last = line[7:]
		case strings.HasPrefix(line, "ZZFAIL "):
			fmt.Println(line)
		case strings.HasPrefix(line, "ZZCHILDDONE "):
			var c, b int
			fmt.Sscanf(line, "ZZCHILDDONE cases=%d failures=%d", &c, &b)
			cases, bad = cases+c, bad+b
			done = true
		}
	}
	cmd.Wait()
	timer.Stop()
	if !done {
		bad++
		cases++
		fmt.Printf("ZZFAIL %s: the process crashed or hung (killed after 120 s) instead of returning an error - cyclic inheritance must end with an error\n", last)
	}
	fmt.Printf("ZZBOUNDED graphs3 K=3 lists=%d failures=%d\n", cases, bad)
	cases4, bad4 := 0, 0
	for _, g := range dags4 {
		c, b := zzCheck(g, dir, "dags4", false, false)
		cases4, bad4 = cases4+c, bad4+b
	}
	fmt.Printf("ZZBOUNDED dags4 K=4 lists=%d failures=%d\n", cases4, bad4)
	if bad+bad4 > 0 {
		t.Fail()
	}
}
