package ssa_test

// C03, compiler side, through cl.NewPackage: slicing of array pointers.
// go/ssa's Slice instruction "panics if X evaluates to a nil *array pointer";
// the decision whether the operand can be nil is taken in cl/compile.go (an
// *ssa.Alloc never is), so these cases are compiled from Go source by the real
// cl package and the emitted function bodies are handed to the IR interpreter.
// Written to $VERIF_EMIT_OUT.cl (the in-package harness owns $VERIF_EMIT_OUT).

import (
	"fmt"
	"go/ast"
	"go/importer"
	"go/parser"
	"go/token"
	"go/types"
	"os"
	"runtime"
	"strings"
	"testing"

	"github.com/goplus/gogen/packages"
	"github.com/goplus/llgo/cl"
	llssa "github.com/goplus/llgo/ssa"
	"golang.org/x/tools/go/ssa"
	"golang.org/x/tools/go/ssa/ssautil"
)

type zzFallbackImporter struct {
	a, b types.Importer
}

func (p zzFallbackImporter) Import(path string) (*types.Package, error) {
	if pkg, err := p.a.Import(path); err == nil && pkg != nil && (path != llssa.PkgRuntime || pkg.Scope().Lookup("structtype") != nil) {
		return pkg, nil
	}
	return p.b.Import(path)
}

func TestZZVerifEmitCL(t *testing.T) {
	out := os.Getenv("VERIF_EMIT_OUT")
	if out == "" {
		t.Skip("VERIF_EMIT_OUT not set")
	}
	var src strings.Builder
	src.WriteString("package zzcl\n\n")
	for _, T := range []string{"int8", "int16", "int32", "int64", "int", "uint8", "uint16", "uint32", "uint64", "uint", "uintptr"} {
		fmt.Fprintf(&src, "func clslice__arrptr__%s__ij(p *[10]int64, i, j %s) []int64 { return p[i:j] }\n", T, T)
		fmt.Fprintf(&src, "func clslice__arrptr__%s__i(p *[10]int64, i %s) []int64 { return p[i:] }\n", T, T)
		fmt.Fprintf(&src, "func clslice__arrptr__%s__j(p *[10]int64, j %s) []int64 { return p[:j] }\n", T, T)
		fmt.Fprintf(&src, "func clslice__arrptr__%s__ijk(p *[10]int64, i, j, k %s) []int64 { return p[i:j:k] }\n", T, T)
		// make(chan T, n) / make(map[K]V, n) with a size operand of every integer type
		fmt.Fprintf(&src, "func clmake__chan__%s__n(n %s) chan int64 { return make(chan int64, n) }\n", T, T)
		fmt.Fprintf(&src, "func clmake__map__%s__n(n %s) map[int64]int64 { return make(map[int64]int64, n) }\n", T, T)
	}
	src.WriteString("func clslice__arrptr__int__full(p *[10]int64) []int64 { return p[:] }\n")

	fset := token.NewFileSet()
	f, err := parser.ParseFile(fset, "zzcl.go", src.String(), 0)
	if err != nil {
		t.Fatal(err)
	}
	files := []*ast.File{f}
	pkg := types.NewPackage("zzcl", "zzcl")
	imp := zzFallbackImporter{packages.NewImporter(fset), importer.For("source", nil)}
	foo, _, err := ssautil.BuildPackage(&types.Config{Importer: imp}, fset, pkg, files, ssa.SanityCheckFunctions|ssa.InstantiateGenerics)
	if err != nil {
		t.Fatal("BuildPackage failed:", err)
	}
	prog := llssa.NewProgram(nil)
	prog.SetRuntime(func() *types.Package {
		rt, err := imp.Import(llssa.PkgRuntime)
		if err != nil {
			t.Fatal("load runtime failed:", err)
		}
		return rt
	})
	prog.TypeSizes(types.SizesFor("gc", runtime.GOARCH))
	ret, err := cl.NewPackage(prog, foo, files)
	if err != nil {
		t.Fatal("cl.NewPackage failed:", err)
	}
	var sb strings.Builder
	in := false
	n := 0
	for _, line := range strings.Split(ret.String(), "\n") {
		if strings.HasPrefix(line, "define ") && (strings.Contains(line, "zzcl.clslice__") || strings.Contains(line, "zzcl.clmake__")) {
			in = true
			n++
			line = strings.Replace(strings.Replace(line, "zzcl.clslice__", "clslice__", 1), "zzcl.clmake__", "clmake__", 1)
		}
		if in {
			sb.WriteString(line + "\n")
			if strings.HasPrefix(line, "}") {
				in = false
				sb.WriteString("\n")
			}
		}
	}
	fmt.Fprintf(&sb, "; ZZCL functions=%d\n", n)
	if err := os.WriteFile(out+".cl", []byte(sb.String()), 0o644); err != nil {
		t.Fatal(err)
	}
}
