package ssa

// Pipeline variant of c07_names_test.go: the descriptor name is taken the way
// the compiler takes it - the Go type is first converted to llgo's raw type by
// Program.Type(t, InGo) (function values become closure structs) and the raw
// type is named by abi.Builder.TypeName - so that a loss of identity-relevant
// information in the conversion (ssa/type_cvt.go) is seen as well.
//
// BOUNDED stand-in for the compile-time half of C07 (labelled bounded, never
// counted as proved): over a finite family of types that varies every
// attribute Go's type identity depends on (field names, tags, embedding,
// package of unexported names, field order and types, variadic-ness,
// parameter/result lists, channel direction, array length, map key/element,
// pointer/slice element, named types of equal name in different packages,
// interface method names and signatures), the REAL (*Builder).TypeName must
// give two types the same descriptor name exactly when types.Identical holds.
// Injected via go test -overlay.

import (
	"fmt"
	"go/token"
	"go/types"
	"os"
	"testing"

	"github.com/goplus/gogen/packages"
)

func TestZZVerifPipelineTypeNames(t *testing.T) {
	if os.Getenv("VERIF_C07") == "" {
		t.Skip("VERIF_C07 not set")
	}
	p1 := types.NewPackage("a/x", "x")
	p2 := types.NewPackage("b/x", "x")
	I, S, B := types.Typ[types.Int], types.Typ[types.String], types.Typ[types.Bool]
	v := func(pkg *types.Package, name string, ty types.Type) *types.Var { return types.NewField(token.NoPos, pkg, name, ty, false) }
	emb := func(pkg *types.Package, name string, ty types.Type) *types.Var { return types.NewField(token.NoPos, pkg, name, ty, true) }
	st := func(fields []*types.Var, tags ...string) *types.Struct { return types.NewStruct(fields, tags) }
	named := func(pkg *types.Package, name string, under types.Type) *types.Named {
		return types.NewNamed(types.NewTypeName(token.NoPos, pkg, name, nil), under, nil)
	}
	T1 := named(p1, "T", I)
	T2 := named(p2, "T", I)
	U1 := named(p1, "U", I)
	Opt := named(p1, "Opt", types.NewSignatureType(nil, nil, nil, nil, nil, false))
	par := func(ts ...types.Type) *types.Tuple {
		var vs []*types.Var
		for _, x := range ts {
			vs = append(vs, types.NewParam(token.NoPos, nil, "", x))
		}
		return types.NewTuple(vs...)
	}
	sig := func(params, results *types.Tuple, variadic bool) *types.Signature {
		return types.NewSignatureType(nil, nil, nil, params, results, variadic)
	}
	iface := func(ms ...*types.Func) *types.Interface {
		it := types.NewInterfaceType(ms, nil)
		it.Complete()
		return it
	}
	meth := func(pkg *types.Package, name string, s *types.Signature) *types.Func { return types.NewFunc(token.NoPos, pkg, name, s) }
	type entry struct {
		desc string
		ty   types.Type
	}
	mk := func() []entry {
		return []entry{
			{"struct{A int}", st([]*types.Var{v(p1, "A", I)})},
			{"struct{A int} again", st([]*types.Var{v(p1, "A", I)})},
			{"struct{B int}", st([]*types.Var{v(p1, "B", I)})},
			{"struct{A string}", st([]*types.Var{v(p1, "A", S)})},
			{"struct{A int `t`}", st([]*types.Var{v(p1, "A", I)}, "json:\"a\"")},
			{"struct{A int `u`}", st([]*types.Var{v(p1, "A", I)}, "json:\"b\"")},
			{"struct{A int; B string}", st([]*types.Var{v(p1, "A", I), v(p1, "B", S)})},
			{"struct{B string; A int}", st([]*types.Var{v(p1, "B", S), v(p1, "A", I)})},
			{"struct{a int} in a/x", st([]*types.Var{v(p1, "a", I)})},
			{"struct{a int} in b/x", st([]*types.Var{v(p2, "a", I)})},
			{"struct{T} embedded a/x.T", st([]*types.Var{emb(p1, "T", T1)})},
			{"struct{T T} field a/x.T", st([]*types.Var{v(p1, "T", T1)})},
			{"struct{T} embedded b/x.T", st([]*types.Var{emb(p1, "T", T2)})},
			{"struct{*T} embedded", st([]*types.Var{emb(p1, "T", types.NewPointer(T1))})},
			{"func(int)", sig(par(I), nil, false)},
			{"func(int) int", sig(par(I), par(I), false)},
			{"func(int, string)", sig(par(I, S), nil, false)},
			{"func(string, int)", sig(par(S, I), nil, false)},
			{"func([]int)", sig(par(types.NewSlice(I)), nil, false)},
			{"func(...int)", sig(par(types.NewSlice(I)), nil, true)},
			{"func() (int, string)", sig(nil, par(I, S), false)},
			{"func() (string, int)", sig(nil, par(S, I), false)},
			{"chan int", types.NewChan(types.SendRecv, I)},
			{"chan<- int", types.NewChan(types.SendOnly, I)},
			{"<-chan int", types.NewChan(types.RecvOnly, I)},
			{"chan string", types.NewChan(types.SendRecv, S)},
			{"[3]int", types.NewArray(I, 3)},
			{"[4]int", types.NewArray(I, 4)},
			{"[3]string", types.NewArray(S, 3)},
			{"[]int", types.NewSlice(I)},
			{"[]string", types.NewSlice(S)},
			{"*int", types.NewPointer(I)},
			{"*string", types.NewPointer(S)},
			{"map[int]string", types.NewMap(I, S)},
			{"map[string]int", types.NewMap(S, I)},
			{"map[int]bool", types.NewMap(I, B)},
			{"a/x.T", T1},
			{"b/x.T", T2},
			{"a/x.U", U1},
			{"*a/x.T", types.NewPointer(T1)},
			{"*b/x.T", types.NewPointer(T2)},
			{"[]a/x.T", types.NewSlice(T1)},
			{"[]b/x.T", types.NewSlice(T2)},
			{"interface{M()}", iface(meth(p1, "M", sig(nil, nil, false)))},
			{"interface{N()}", iface(meth(p1, "N", sig(nil, nil, false)))},
			{"interface{M() int}", iface(meth(p1, "M", sig(nil, par(I), false)))},
			{"interface{m()} a/x", iface(meth(p1, "m", sig(nil, nil, false)))},
			{"interface{m()} b/x", iface(meth(p2, "m", sig(nil, nil, false)))},
			{"interface{M(); N()}", iface(meth(p1, "M", sig(nil, nil, false)), meth(p1, "N", sig(nil, nil, false)))},
			{"interface{}", iface()},
			{"struct{F func(...int)}", st([]*types.Var{v(p1, "F", sig(par(types.NewSlice(I)), nil, true))})},
			{"struct{F func([]int)}", st([]*types.Var{v(p1, "F", sig(par(types.NewSlice(I)), nil, false))})},
			{"struct{C chan<- int}", st([]*types.Var{v(p1, "C", types.NewChan(types.SendOnly, I))})},
			{"struct{C <-chan int}", st([]*types.Var{v(p1, "C", types.NewChan(types.RecvOnly, I))})},
			{"struct{S struct{A int `t`}}", st([]*types.Var{v(p1, "S", st([]*types.Var{v(p1, "A", I)}, "x"))})},
			{"struct{S struct{A int}}", st([]*types.Var{v(p1, "S", st([]*types.Var{v(p1, "A", I)}))})},
			// signatures whose parameters/results themselves need the raw conversion
			{"func(func(), ...int)", sig(par(sig(nil, nil, false), types.NewSlice(I)), nil, true)},
			{"func(func(), []int)", sig(par(sig(nil, nil, false), types.NewSlice(I)), nil, false)},
			{"func(...func())", sig(par(types.NewSlice(sig(nil, nil, false))), nil, true)},
			{"func([]func())", sig(par(types.NewSlice(sig(nil, nil, false))), nil, false)},
			{"func(...a/x.Opt)", sig(par(types.NewSlice(Opt)), nil, true)},
			{"func([]a/x.Opt)", sig(par(types.NewSlice(Opt)), nil, false)},
			{"func(func(int)) func(string)", sig(par(sig(par(I), nil, false)), par(sig(par(S), nil, false)), false)},
			{"func(func(string)) func(int)", sig(par(sig(par(S), nil, false)), par(sig(par(I), nil, false)), false)},
			{"func(func() int)", sig(par(sig(nil, par(I), false)), nil, false)},
			{"func(func()) int", sig(par(sig(nil, nil, false)), par(I), false)},
			{"[]func(func(), ...int)", types.NewSlice(sig(par(sig(nil, nil, false), types.NewSlice(I)), nil, true))},
			{"[]func(func(), []int)", types.NewSlice(sig(par(sig(nil, nil, false), types.NewSlice(I)), nil, false))},
			{"*func(func(), ...int)", types.NewPointer(sig(par(sig(nil, nil, false), types.NewSlice(I)), nil, true))},
			{"*func(func(), []int)", types.NewPointer(sig(par(sig(nil, nil, false), types.NewSlice(I)), nil, false))},
			{"map[int]func(func())", types.NewMap(I, sig(par(sig(nil, nil, false)), nil, false))},
			{"map[int]func(func(int))", types.NewMap(I, sig(par(sig(par(I), nil, false)), nil, false))},
			{"chan func(func())", types.NewChan(types.SendRecv, sig(par(sig(nil, nil, false)), nil, false))},
			{"chan<- func(func())", types.NewChan(types.SendOnly, sig(par(sig(nil, nil, false)), nil, false))},
			{"struct{F func(func(), ...int)}", st([]*types.Var{v(p1, "F", sig(par(sig(nil, nil, false), types.NewSlice(I)), nil, true))})},
			{"struct{F func(func(), []int)}", st([]*types.Var{v(p1, "F", sig(par(sig(nil, nil, false), types.NewSlice(I)), nil, false))})},
			{"interface{M(func(), ...int)}", iface(meth(p1, "M", sig(par(sig(nil, nil, false), types.NewSlice(I)), nil, true)))},
			{"interface{M(func(), []int)}", iface(meth(p1, "M", sig(par(sig(nil, nil, false), types.NewSlice(I)), nil, false)))},
		}
	}
	fam := mk()
	prog := NewProgram(nil)
	prog.TypeSizes(types.SizesFor("gc", "amd64"))
	prog.SetRuntime(func() *types.Package {
		fset := token.NewFileSet()
		imp := packages.NewImporter(fset)
		rt, _ := imp.Import(PkgRuntime)
		return rt
	})
	names := make([]string, len(fam))
	for i, e := range fam {
		names[i], _ = prog.abi.TypeName(prog.Type(e.ty, InGo).raw.Type)
	}
	pairs, bad := 0, 0
	for i := range fam {
		for j := i + 1; j < len(fam); j++ {
			pairs++
			same := names[i] == names[j]
			ident := types.Identical(fam[i].ty, fam[j].ty)
			if same != ident {
				bad++
				fmt.Printf("ZZFAIL identical=%v same-descriptor-name=%v : %s  vs  %s  (name %q)\n", ident, same, fam[i].desc, fam[j].desc, names[i])
			}
		}
	}
	fmt.Printf("ZZBOUNDED pipelinenames types=%d pairs=%d failures=%d\n", len(fam), pairs, bad)
	if bad > 0 {
		t.Fail()
	}
}
