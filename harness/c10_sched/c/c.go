// Package c is a tiny Go stand-in for the two clite helpers z_chan.go uses.
package c

import "unsafe"

func Advance(p unsafe.Pointer, off int) unsafe.Pointer { return unsafe.Add(p, off) }

func Memcpy(dst, src unsafe.Pointer, n uintptr) unsafe.Pointer {
	if n > 0 {
		copy(unsafe.Slice((*byte)(dst), n), unsafe.Slice((*byte)(src), n))
	}
	return dst
}
