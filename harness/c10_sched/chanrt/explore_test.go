package runtime

// BOUNDED stand-in for the clauses of C10 that the monitor proofs do not decide
// (unbuffered hand-off, close racing with a hand-off, several receivers): the
// REAL z_chan.go (copied from /repo's working tree; only its two C-binding
// imports are redirected to the shims of this directory) is run under a
// cooperative scheduler in which every pthread mutex / condition-variable call
// is a scheduling point, and EVERY interleaving of small scenarios is explored
// (stateless depth-first search over the scheduler's choices, re-running the
// scenario from scratch for each schedule). Oracle: Go's channel semantics -
// each sent value is received exactly once, in order per sender, with ok=true;
// ok=false only for a receive that got nothing because the channel was closed;
// nobody stays blocked when a matching partner or a close exists.
//
// Labelled bounded: scenarios with at most 3 threads and 2 values; the number
// of schedules per scenario is capped (reported).

import (
	"fmt"
	"math/rand"
	"os"
	"sort"
	"strconv"
	"strings"
	"testing"
	"unsafe"

	"chansched/sched"
)

const isz = int(unsafe.Sizeof(int(0)))

type recvRes struct {
	v  int
	ok bool
}

type scenario struct {
	name  string
	cap   int
	build func(ch *Chan, out *outcome) map[string]func()
	check func(out *outcome, stuck []string) string
}

type outcome struct {
	recv map[string][]recvRes
	sent map[string][]int
}

func send(ch *Chan, v int) { ChanSend(ch, unsafe.Pointer(&v), isz) }
func recv(ch *Chan) recvRes {
	var v int
	ok := ChanRecv(ch, unsafe.Pointer(&v), isz)
	return recvRes{v, ok}
}

// runOne executes the scenario under the given choice sequence; choices beyond
// the prefix default to 0. It returns the branching factor seen at every step.
func runOne(sc scenario, prefix []int, maxSteps int) (widths []int, failure string) {
	return runOneRnd(sc, prefix, maxSteps, nil)
}

// runOneRnd: like runOne; choices beyond the prefix are drawn from rnd when given.
func runOneRnd(sc scenario, prefix []int, maxSteps int, rnd *rand.Rand) (widths []int, failure string) {
	s := sched.New()
	defer s.Stop()
	ch := NewChan(isz, sc.cap)
	out := &outcome{recv: map[string][]recvRes{}, sent: map[string][]int{}}
	fns := sc.build(ch, out)
	var names []string
	for n := range fns {
		names = append(names, n)
	}
	sort.Strings(names)
	for _, n := range names {
		s.Go(n, fns[n])
	}
	panicked := ""
	func() {
		defer func() {
			if r := recover(); r != nil {
				panicked = fmt.Sprint(r)
			}
		}()
		for step := 0; step < maxSteps; step++ {
			var r []*sched.Thread
			for _, t := range s.Threads {
				if t.Runnable() {
					r = append(r, t)
				}
			}
			if len(r) == 0 {
				break
			}
			c := 0
			if step < len(prefix) {
				c = prefix[step]
			} else if rnd != nil {
				c = rnd.Intn(len(r))
			}
			widths = append(widths, len(r))
			s.Step(r[c])
		}
	}()
	if panicked != "" {
		return widths, "panic: " + panicked
	}
	var stuck []string
	for _, t := range s.Threads {
		if !t.Done {
			stuck = append(stuck, t.Name)
		}
	}
	if msg := sc.check(out, stuck); msg != "" {
		tr := s.Trace
		if len(tr) > 80 {
			tr = tr[len(tr)-80:]
		}
		return widths, msg + " | schedule: " + strings.Join(tr, " ")
	}
	return widths, ""
}

func explore(sc scenario, maxSchedules int) (n int, failures []string, complete bool) {
	prefix := []int{}
	for {
		widths, f := runOne(sc, prefix, 400)
		n++
		if f != "" {
			failures = append(failures, f)
			if len(failures) >= 3 {
				return n, failures, false
			}
		}
		// next schedule: extend the prefix to the full path, then increment the last incrementable choice
		full := make([]int, len(widths))
		copy(full, prefix)
		i := len(full) - 1
		for i >= 0 && full[i]+1 >= widths[i] {
			i--
		}
		if i < 0 {
			return n, failures, true
		}
		full[i]++
		prefix = full[:i+1]
		if n >= maxSchedules {
			return n, failures, false
		}
	}
}

func expectAll(out *outcome, stuck []string, want map[int]int, closedReceivers int) string {
	if len(stuck) > 0 {
		return fmt.Sprintf("threads left blocked: %v (received so far %v)", stuck, out.recv)
	}
	got := map[int]int{}
	falses := 0
	for who, rs := range out.recv {
		last := -1
		for _, r := range rs {
			if !r.ok {
				falses++
				if r.v != 0 {
					return fmt.Sprintf("%s received (%d, false): a value was handed over but reported as not received", who, r.v)
				}
				continue
			}
			got[r.v]++
			_ = last
		}
	}
	for v, c := range want {
		if got[v] != c {
			return fmt.Sprintf("value %d received %d times, want %d (all receives: %v)", v, got[v], c, out.recv)
		}
	}
	for v, c := range got {
		if want[v] != c {
			return fmt.Sprintf("value %d received %d times, want %d (all receives: %v)", v, c, want[v], out.recv)
		}
	}
	if falses != closedReceivers {
		return fmt.Sprintf("%d receives reported ok=false, want %d (all receives: %v)", falses, closedReceivers, out.recv)
	}
	return ""
}

func scenarios() []scenario {
	var out []scenario
	for _, cp := range []int{0, 1} {
		cp := cp
		out = append(out,
			scenario{name: fmt.Sprintf("send-close|recv cap=%d", cp), cap: cp,
				build: func(ch *Chan, o *outcome) map[string]func() {
					return map[string]func(){
						"S": func() { send(ch, 7); ChanClose(ch) },
						"R": func() { o.recv["R"] = append(o.recv["R"], recv(ch)) },
					}
				},
				check: func(o *outcome, stuck []string) string { return expectAll(o, stuck, map[int]int{7: 1}, 0) }},
			scenario{name: fmt.Sprintf("send-close|recv-recv cap=%d", cp), cap: cp,
				build: func(ch *Chan, o *outcome) map[string]func() {
					return map[string]func(){
						"S": func() { send(ch, 7); ChanClose(ch) },
						"R": func() { o.recv["R"] = append(o.recv["R"], recv(ch)); o.recv["R"] = append(o.recv["R"], recv(ch)) },
					}
				},
				check: func(o *outcome, stuck []string) string { return expectAll(o, stuck, map[int]int{7: 1}, 1) }},
			scenario{name: fmt.Sprintf("send-send|recv-recv cap=%d", cp), cap: cp,
				build: func(ch *Chan, o *outcome) map[string]func() {
					return map[string]func(){
						"S": func() { send(ch, 1); send(ch, 2) },
						"R": func() { o.recv["R"] = append(o.recv["R"], recv(ch)); o.recv["R"] = append(o.recv["R"], recv(ch)) },
					}
				},
				check: func(o *outcome, stuck []string) string {
					if m := expectAll(o, stuck, map[int]int{1: 1, 2: 1}, 0); m != "" {
						return m
					}
					if r := o.recv["R"]; len(r) == 2 && (r[0].v != 1 || r[1].v != 2) {
						return fmt.Sprintf("values received out of order: %v", r)
					}
					return ""
				}},
			scenario{name: fmt.Sprintf("send|send|recv-recv cap=%d", cp), cap: cp,
				build: func(ch *Chan, o *outcome) map[string]func() {
					return map[string]func(){
						"S1": func() { send(ch, 1) },
						"S2": func() { send(ch, 2) },
						"R":  func() { o.recv["R"] = append(o.recv["R"], recv(ch)); o.recv["R"] = append(o.recv["R"], recv(ch)) },
					}
				},
				check: func(o *outcome, stuck []string) string { return expectAll(o, stuck, map[int]int{1: 1, 2: 1}, 0) }},
			scenario{name: fmt.Sprintf("send-close|recv|recv cap=%d", cp), cap: cp,
				build: func(ch *Chan, o *outcome) map[string]func() {
					return map[string]func(){
						"S":  func() { send(ch, 7); ChanClose(ch) },
						"R1": func() { o.recv["R1"] = append(o.recv["R1"], recv(ch)) },
						"R2": func() { o.recv["R2"] = append(o.recv["R2"], recv(ch)) },
					}
				},
				check: func(o *outcome, stuck []string) string { return expectAll(o, stuck, map[int]int{7: 1}, 1) }},
			scenario{name: fmt.Sprintf("send-send|recv|recv cap=%d", cp), cap: cp,
				build: func(ch *Chan, o *outcome) map[string]func() {
					return map[string]func(){
						"S":  func() { send(ch, 1); send(ch, 2) },
						"R1": func() { o.recv["R1"] = append(o.recv["R1"], recv(ch)) },
						"R2": func() { o.recv["R2"] = append(o.recv["R2"], recv(ch)) },
					}
				},
				check: func(o *outcome, stuck []string) string { return expectAll(o, stuck, map[int]int{1: 1, 2: 1}, 0) }},
			scenario{name: fmt.Sprintf("send-close|select-recv cap=%d", cp), cap: cp,
				build: func(ch *Chan, o *outcome) map[string]func() {
					return map[string]func(){
						"S": func() { send(ch, 7); ChanClose(ch) },
						"R": func() {
							var v int
							_, ok := Select(ChanOp{C: ch, Val: unsafe.Pointer(&v), Size: int32(isz)})
							o.recv["R"] = append(o.recv["R"], recvRes{v, ok})
						},
					}
				},
				check: func(o *outcome, stuck []string) string { return expectAll(o, stuck, map[int]int{7: 1}, 0) }},
			scenario{name: fmt.Sprintf("select-send|recv cap=%d", cp), cap: cp,
				build: func(ch *Chan, o *outcome) map[string]func() {
					return map[string]func(){
						"S": func() {
							x := 9
							Select(ChanOp{C: ch, Val: unsafe.Pointer(&x), Size: int32(isz), Send: true})
						},
						"R": func() { o.recv["R"] = append(o.recv["R"], recv(ch)) },
					}
				},
				check: func(o *outcome, stuck []string) string { return expectAll(o, stuck, map[int]int{9: 1}, 0) }},
			scenario{name: fmt.Sprintf("close|recv cap=%d", cp), cap: cp,
				build: func(ch *Chan, o *outcome) map[string]func() {
					return map[string]func(){
						"C": func() { ChanClose(ch) },
						"R": func() { o.recv["R"] = append(o.recv["R"], recv(ch)) },
					}
				},
				check: func(o *outcome, stuck []string) string { return expectAll(o, stuck, map[int]int{}, 1) }},
		)
	}
	return out
}

// two blocking selects that can only meet each other (with and without nil-channel
// cases, which must be inert): both must finish, exactly one value is transferred and
// the two sides agree on which one
func selectPairScenarios() []scenario {
	type side struct {
		sendOn, recvOn int // channel indexes (0 = a, 1 = b, -1 = none)
		nilSend, nilRecv bool
	}
	mk := func(name string, swap bool, A, B side) scenario {
		return scenario{name: name, cap: 0, build: func(_ *Chan, o *outcome) map[string]func() {
			x, y := NewChan(isz, 0), NewChan(isz, 0)
			chans := []*Chan{x, y}
			if (uintptr(unsafe.Pointer(x)) > uintptr(unsafe.Pointer(y))) != swap {
				chans = []*Chan{y, x}
			}
			run := func(who string, sd side, val int) func() {
				return func() {
					v := val
					var got int
					var ops []ChanOp
					var kinds []string
					if sd.nilSend {
						ops = append(ops, ChanOp{C: nil, Val: unsafe.Pointer(&v), Size: int32(isz), Send: true})
						kinds = append(kinds, "nil")
					}
					if sd.sendOn >= 0 {
						ops = append(ops, ChanOp{C: chans[sd.sendOn], Val: unsafe.Pointer(&v), Size: int32(isz), Send: true})
						kinds = append(kinds, "send")
					}
					if sd.recvOn >= 0 {
						ops = append(ops, ChanOp{C: chans[sd.recvOn], Val: unsafe.Pointer(&got), Size: int32(isz)})
						kinds = append(kinds, "recv")
					}
					if sd.nilRecv {
						ops = append(ops, ChanOp{C: nil, Val: unsafe.Pointer(&got), Size: int32(isz)})
						kinds = append(kinds, "nil")
					}
					isel, ok := Select(ops...)
					switch kinds[isel] {
					case "send":
						o.sent[who] = append(o.sent[who], val)
					case "recv":
						o.recv[who] = append(o.recv[who], recvRes{got, ok})
					default:
						o.recv[who] = append(o.recv[who], recvRes{-999, false}) // a nil-channel case was chosen
					}
				}
			}
			return map[string]func(){"A": run("A", A, 1), "B": run("B", B, 2)}
		}, check: func(o *outcome, stuck []string) string {
			if len(stuck) > 0 {
				return fmt.Sprintf("selects left blocked although they can meet each other: %v", stuck)
			}
			nsent, nrecv := len(o.sent["A"])+len(o.sent["B"]), len(o.recv["A"])+len(o.recv["B"])
			if nsent != 1 || nrecv != 1 {
				return fmt.Sprintf("%d sends and %d receives committed, want exactly one of each (sent %v, received %v)", nsent, nrecv, o.sent, o.recv)
			}
			for who, vs := range o.sent {
				other := "B"
				if who == "B" {
					other = "A"
				}
				if r := o.recv[other]; len(r) != 1 || !r[0].ok || r[0].v != vs[0] {
					return fmt.Sprintf("%s sent %d but %s received %v", who, vs[0], other, r)
				}
			}
			return ""
		}}
	}
	var out []scenario
	for _, swap := range []bool{false, true} {
		tag := fmt.Sprintf(" order=%v", swap)
		out = append(out,
			mk("select{a<-,<-b}|select{b<-,<-a}"+tag, swap, side{0, 1, false, false}, side{1, 0, false, false}),
			mk("select{a<-,<-b,<-nil}|select{b<-,<-a}"+tag, swap, side{0, 1, false, true}, side{1, 0, false, false}),
			mk("select{nil<-,a<-,<-b}|select{b<-,<-a}"+tag, swap, side{0, 1, true, false}, side{1, 0, false, false}),
			mk("select{nil<-,<-a}|select{a<-}"+tag, swap, side{-1, 0, true, false}, side{0, -1, false, false}),
			mk("select{<-a,<-nil}|select{a<-}"+tag, swap, side{-1, 0, false, true}, side{0, -1, false, false}),
		)
	}
	return out
}

func TestZZVerifChanSchedules(t *testing.T) {
	if os.Getenv("VERIF_C10") == "" {
		t.Skip("VERIF_C10 not set")
	}
	max, _ := strconv.Atoi(os.Getenv("VERIF_C10_MAX"))
	if max == 0 {
		max = 20000
	}
	only := os.Getenv("VERIF_C10_ONLY")
	seed, _ := strconv.ParseInt(os.Getenv("VERIF_SEED"), 10, 64)
	total, bad, incomplete := 0, 0, 0
	for _, sc := range append(scenarios(), selectPairScenarios()...) {
		if only != "" && !strings.Contains(sc.name, only) {
			continue
		}
		n, fails, complete := explore(sc, max)
		if !complete && len(fails) == 0 {
			// the depth-first enumeration was cut off: add uniformly random schedules
			rnd := rand.New(rand.NewSource(seed + int64(len(sc.name))))
			for i := 0; i < max/2 && len(fails) < 3; i++ {
				n++
				if _, f := runOneRnd(sc, nil, 400, rnd); f != "" {
					fails = append(fails, f)
				}
			}
		}
		total += n
		if !complete && len(fails) == 0 {
			incomplete++
		}
		for _, f := range fails {
			bad++
			fmt.Printf("ZZFAIL scenario=%q %s\n", sc.name, f)
		}
		fmt.Printf("ZZSCEN %q schedules=%d exhaustive=%v failures=%d\n", sc.name, n, complete, len(fails))
	}
	fmt.Printf("ZZBOUNDED chanschedules K=%d lists=%d failures=%d\n", incomplete, total, bad)
	if bad > 0 {
		t.Fail()
	}
}
