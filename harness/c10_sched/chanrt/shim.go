package runtime

import "unsafe"

// Stand-ins for the two runtime-package symbols z_chan.go refers to.

type plainError string

func (e plainError) Error() string { return string(e) }

func AllocU(size uintptr) unsafe.Pointer {
	if size == 0 {
		size = 1
	}
	b := make([]byte, size)
	return unsafe.Pointer(&b[0])
}

// maxAlloc as in stubs.go (64-bit)
const maxAlloc = 1 << 48
