module chansched

go 1.24
