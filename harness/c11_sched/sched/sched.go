// Package sched is a tiny cooperative scheduler used to drive the real llgo
// semaphore / notify-list source (runtime/internal/lib/runtime/sema_llgo.go)
// through chosen interleavings at lock/atomic granularity.
//
// Every "thread" is a goroutine, but only one of them runs at any time: each
// shimmed primitive (pthread mutex/cond, atomic op) first hands control back to
// the controller (the test), which decides who performs its next operation.
// When no scheduler is active the shims fall back to real sync / sync/atomic.
package sched

import "fmt"

type Op struct {
	Name string      // "start", "load", "cas", "add", "store", "lock", "unlock", "wait", "signal", "broadcast"
	Obj  interface{} // the mutex / cond / word operated on
}

type Thread struct {
	Name    string
	s       *Sched
	resume  chan struct{}
	Pending Op          // operation performed when the thread is stepped next
	blocked interface{} // non-nil: not runnable until Wake(blocked)
	Done    bool
	Steps   int
}

type Sched struct {
	ctl     chan struct{}
	Threads []*Thread
	cur     *Thread
	Trace   []string
}

var active *Sched

func Active() bool { return active != nil }

func New() *Sched {
	s := &Sched{ctl: make(chan struct{})}
	active = s
	return s
}

// Stop deactivates the scheduler (threads still parked stay parked forever).
func (s *Sched) Stop() { active = nil }

func (s *Sched) Go(name string, f func()) *Thread {
	t := &Thread{Name: name, s: s, resume: make(chan struct{}), Pending: Op{Name: "start"}}
	s.Threads = append(s.Threads, t)
	go func() {
		<-t.resume
		f()
		t.Done = true
		t.Pending = Op{Name: "done"}
		s.ctl <- struct{}{}
	}()
	return t
}

func (t *Thread) Runnable() bool { return !t.Done && t.blocked == nil }
func (t *Thread) Blocked() bool  { return !t.Done && t.blocked != nil }

// Step lets t perform its pending operation and run up to its next one.
func (s *Sched) Step(t *Thread) {
	if !t.Runnable() {
		panic("sched: stepping non-runnable thread " + t.Name)
	}
	s.Trace = append(s.Trace, fmt.Sprintf("%s:%s", t.Name, t.Pending.Name))
	s.cur = t
	t.Steps++
	t.resume <- struct{}{}
	<-s.ctl
	s.cur = nil
}

// RunUntil steps t until pred holds for its pending op, or it blocks/finishes.
func (s *Sched) RunUntil(t *Thread, pred func(Op) bool) bool {
	for t.Runnable() {
		if pred(t.Pending) {
			return true
		}
		s.Step(t)
	}
	return false
}

// Run steps t until it finishes or blocks; reports whether it finished.
func (s *Sched) Run(t *Thread) bool {
	for t.Runnable() {
		s.Step(t)
	}
	return t.Done
}

// Drain runs all threads (choice made by pick among the runnable ones) until
// every thread is done or nobody can move. Returns the threads left stuck.
func (s *Sched) Drain(pick func(n int) int) []*Thread {
	for {
		var r []*Thread
		for _, t := range s.Threads {
			if t.Runnable() {
				r = append(r, t)
			}
		}
		if len(r) == 0 {
			break
		}
		i := 0
		if pick != nil {
			i = pick(len(r))
		}
		s.Step(r[i])
	}
	var stuck []*Thread
	for _, t := range s.Threads {
		if !t.Done {
			stuck = append(stuck, t)
		}
	}
	return stuck
}

// --- called by the shims, on the currently running thread ---

func handback(t *Thread) {
	t.s.ctl <- struct{}{}
	<-t.resume
}

// Yield announces the next operation and waits to be scheduled.
func Yield(name string, obj interface{}) {
	t := active.cur
	t.Pending = Op{name, obj}
	handback(t)
}

// BlockOn parks the current thread until somebody calls Wake(obj).
func BlockOn(obj interface{}) {
	t := active.cur
	t.blocked = obj
	handback(t)
}

// Cur returns the running thread.
func Cur() *Thread { return active.cur }

// Wake makes every thread blocked on obj runnable again.
func Wake(obj interface{}) {
	for _, t := range active.Threads {
		if t.blocked == obj {
			t.blocked = nil
		}
	}
}

// WakeThread makes one specific thread runnable again.
func WakeThread(t *Thread) { t.blocked = nil }
