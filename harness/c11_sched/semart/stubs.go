package runtime

// The few package-level helpers sema_llgo.go expects from the rest of the llgo
// runtime package.

import "time"

func throw(s string)     { panic("throw: " + s) }
func fatal(s string)     { panic("fatal: " + s) }
func runtimeNano() int64 { return time.Now().UnixNano() }
