package runtime

// BOUNDED stand-in for the liveness-flavoured clauses of C11 that the monitor
// proofs state only as safety conditions (a released permit admits a waiter;
// a notified ticket wakes its waiter; nobody sleeps while permits remain): the
// REAL sema_llgo.go (copied from /repo's working tree; only its two C-binding /
// atomics imports are redirected to the shims of this directory, //go:linkname
// lines dropped) runs under a cooperative scheduler in which every pthread
// mutex/cond call and every atomic operation is a scheduling point; the
// interleavings of small scenarios are enumerated depth-first up to a cap and
// then sampled. Oracle: at the end nobody is blocked, the semaphore count is
// what the numbers of acquires and releases say, every notified waiter returned.

import (
	"fmt"
	"math/rand"
	"os"
	"sort"
	"strconv"
	"strings"
	"sync/atomic"
	"testing"

	psync "semasched/psync"
	"semasched/sched"
)

var _ = sched.Active

type scenario struct {
	name  string
	build func() (map[string]func(), func(stuck []string) string)
}

func runOne(sc scenario, prefix []int, maxSteps int, rnd *rand.Rand) (widths []int, failure string) {
	s := sched.New()
	defer s.Stop()
	fns, check := sc.build()
	var names []string
	for n := range fns {
		names = append(names, n)
	}
	sort.Strings(names)
	for _, n := range names {
		s.Go(n, fns[n])
	}
	panicked := ""
	func() {
		defer func() {
			if r := recover(); r != nil {
				panicked = fmt.Sprint(r)
			}
		}()
		for step := 0; step < maxSteps; step++ {
			var r []*sched.Thread
			for _, t := range s.Threads {
				if t.Runnable() {
					r = append(r, t)
				}
			}
			if len(r) == 0 {
				break
			}
			c := 0
			if step < len(prefix) {
				c = prefix[step]
			} else if rnd != nil {
				c = rnd.Intn(len(r))
			}
			widths = append(widths, len(r))
			s.Step(r[c])
		}
	}()
	if panicked != "" {
		return widths, "panic: " + panicked
	}
	var stuck []string
	for _, t := range s.Threads {
		if !t.Done {
			stuck = append(stuck, t.Name)
		}
	}
	if msg := check(stuck); msg != "" {
		tr := s.Trace
		if len(tr) > 90 {
			tr = tr[len(tr)-90:]
		}
		return widths, msg + " | schedule: " + strings.Join(tr, " ")
	}
	return widths, ""
}

func explore(sc scenario, maxSchedules int) (n int, failures []string, complete bool) {
	prefix := []int{}
	for {
		widths, f := runOne(sc, prefix, 600, nil)
		n++
		if f != "" {
			failures = append(failures, f)
			if len(failures) >= 3 {
				return n, failures, false
			}
		}
		full := make([]int, len(widths))
		copy(full, prefix)
		i := len(full) - 1
		for i >= 0 && full[i]+1 >= widths[i] {
			i--
		}
		if i < 0 {
			return n, failures, true
		}
		full[i]++
		prefix = full[:i+1]
		if n >= maxSchedules {
			return n, failures, false
		}
	}
}

func semaScenario(name string, initial uint32, acquirers, releasers int) scenario {
	return scenario{name: name, build: func() (map[string]func(), func([]string) string) {
		addr := new(uint32)
		*addr = initial
		fns := map[string]func(){}
		for i := 0; i < acquirers; i++ {
			fns[fmt.Sprintf("A%d", i)] = func() { semaAcquire(addr) }
		}
		for i := 0; i < releasers; i++ {
			fns[fmt.Sprintf("R%d", i)] = func() { semaRelease(addr) }
		}
		want := int(initial) + releasers - acquirers
		return fns, func(stuck []string) string {
			if want >= 0 {
				if len(stuck) > 0 {
					return fmt.Sprintf("threads left blocked although permits suffice: %v (count=%d)", stuck, atomic.LoadUint32(addr))
				}
				if got := int(atomic.LoadUint32(addr)); got != want {
					return fmt.Sprintf("final count = %d, want %d", got, want)
				}
				return ""
			}
			// more acquirers than permits: exactly -want acquirers stay blocked, count 0
			if len(stuck) != -want {
				return fmt.Sprintf("%d threads blocked, want %d (count=%d)", len(stuck), -want, atomic.LoadUint32(addr))
			}
			if got := atomic.LoadUint32(addr); got != 0 {
				return fmt.Sprintf("final count = %d with blocked acquirers", got)
			}
			return ""
		}
	}}
}

func scenarios() []scenario {
	out := []scenario{
		semaScenario("sema 0: acquire|release", 0, 1, 1),
		semaScenario("sema 0: acquire|acquire|release|release", 0, 2, 2),
		semaScenario("sema 1: acquire|acquire|release", 1, 2, 1),
		semaScenario("sema 0: acquire|acquire|release", 0, 2, 1),
		semaScenario("sema 2: acquire|acquire", 2, 2, 0),
	}
	// notify list, used as sync.Cond does: a waiter takes its ticket under the user's
	// lock after finding the condition false; the notifier makes the condition true
	// under that lock and notifies afterwards. No waiter may sleep forever.
	condScenario := func(name string, waiters int, notify func(l *notifyList)) scenario {
		return scenario{name: name, build: func() (map[string]func(), func([]string) string) {
			l := new(notifyList)
			var L psync.Mutex
			L.Init(nil)
			ready := false
			fns := map[string]func(){}
			for i := 0; i < waiters; i++ {
				fns[fmt.Sprintf("W%d", i)] = func() {
					L.Lock()
					for !ready {
						t := sync_runtime_notifyListAdd(l)
						L.Unlock()
						sync_runtime_notifyListWait(l, t)
						L.Lock()
					}
					L.Unlock()
				}
			}
			fns["N"] = func() {
				L.Lock()
				ready = true
				L.Unlock()
				notify(l)
			}
			return fns, func(stuck []string) string {
				if len(stuck) > 0 {
					return fmt.Sprintf("threads left blocked: %v (wait=%d notify=%d)", stuck, atomic.LoadUint32(&l.wait), atomic.LoadUint32(&l.notify))
				}
				return ""
			}
		}}
	}
	out = append(out,
		condScenario("cond: wait|signal", 1, func(l *notifyList) { sync_runtime_notifyListNotifyOne(l) }),
		condScenario("cond: wait|broadcast", 1, func(l *notifyList) { sync_runtime_notifyListNotifyAll(l) }),
		condScenario("cond: wait|wait|broadcast", 2, func(l *notifyList) { sync_runtime_notifyListNotifyAll(l) }),
		condScenario("cond: wait|wait|signal-signal", 2, func(l *notifyList) {
			sync_runtime_notifyListNotifyOne(l)
			sync_runtime_notifyListNotifyOne(l)
		}),
	)
	return out
}

func TestZZVerifSemaSchedules(t *testing.T) {
	if os.Getenv("VERIF_C11") == "" {
		t.Skip("VERIF_C11 not set")
	}
	max, _ := strconv.Atoi(os.Getenv("VERIF_C11_MAX"))
	if max == 0 {
		max = 20000
	}
	seed, _ := strconv.ParseInt(os.Getenv("VERIF_SEED"), 10, 64)
	total, bad, incomplete := 0, 0, 0
	for _, sc := range scenarios() {
		n, fails, complete := explore(sc, max)
		if !complete && len(fails) == 0 {
			incomplete++
			rnd := rand.New(rand.NewSource(seed + int64(len(sc.name))))
			for i := 0; i < max/2 && len(fails) < 3; i++ {
				n++
				if _, f := runOne(sc, nil, 600, rnd); f != "" {
					fails = append(fails, f)
				}
			}
		}
		total += n
		for _, f := range fails {
			bad++
			fmt.Printf("ZZFAIL scenario=%q %s\n", sc.name, f)
		}
		fmt.Printf("ZZSCEN %q schedules=%d exhaustive=%v failures=%d\n", sc.name, n, complete, len(fails))
	}
	fmt.Printf("ZZBOUNDED semaschedules K=%d lists=%d failures=%d\n", incomplete, total, bad)
	if bad > 0 {
		t.Fail()
	}
}
