// Package atomic stands in for runtime/internal/lib/sync/atomic: real atomics,
// each one a scheduling point when a sched.Sched is active.
package atomic

import (
	goatomic "sync/atomic"

	"semasched/sched"
)

func yield(name string, p *uint32) {
	if sched.Active() {
		sched.Yield(name, p)
	}
}

func LoadUint32(p *uint32) uint32 { yield("load", p); return goatomic.LoadUint32(p) }
func StoreUint32(p *uint32, v uint32) { yield("store", p); goatomic.StoreUint32(p, v) }
func AddUint32(p *uint32, d uint32) uint32 { yield("add", p); return goatomic.AddUint32(p, d) }
func CompareAndSwapUint32(p *uint32, o, n uint32) bool {
	yield("cas", p)
	return goatomic.CompareAndSwapUint32(p, o, n)
}
