module semasched

go 1.24
