// Package sync stands in for runtime/internal/clite/pthread/sync (pthread
// mutex / cond / once). Under an active sched.Sched the primitives are modelled
// exactly (mutex ownership, cond wait queue, Wait = atomic unlock+enqueue, no
// spurious wake-ups) and every call is a scheduling point; otherwise they map
// to Go's sync package so the same source can be stress tested on real threads.
package sync

import (
	gosync "sync"

	"semasched/sched"
)

type MutexAttr struct{}
type CondAttr struct{}

type Mutex struct {
	held bool
	rm   gosync.Mutex
}

func (m *Mutex) Init(*MutexAttr) {}

func (m *Mutex) Lock() {
	if !sched.Active() {
		m.rm.Lock()
		return
	}
	sched.Yield("lock", m)
	m.acquire()
}

func (m *Mutex) acquire() {
	for m.held {
		sched.BlockOn(m)
	}
	m.held = true
}

func (m *Mutex) Unlock() {
	if !sched.Active() {
		m.rm.Unlock()
		return
	}
	sched.Yield("unlock", m)
	if !m.held {
		panic("unlock of unlocked pthread mutex")
	}
	m.held = false
	sched.Wake(m)
}

type Cond struct {
	q  []*sched.Thread
	rc gosync.Cond
}

func (c *Cond) Init(*CondAttr) {}

func (c *Cond) Wait(m *Mutex) {
	if !sched.Active() {
		c.rc.L = &m.rm
		c.rc.Wait()
		return
	}
	sched.Yield("wait", c)
	// atomically: release the mutex and join the wait queue
	if !m.held {
		panic("cond wait without the mutex")
	}
	m.held = false
	sched.Wake(m)
	c.q = append(c.q, sched.Cur())
	sched.BlockOn(c)
	// signalled: re-acquire the mutex
	m.acquire()
}

func (c *Cond) Signal() {
	if !sched.Active() {
		c.rc.Signal()
		return
	}
	sched.Yield("signal", c)
	if len(c.q) > 0 {
		t := c.q[0]
		c.q = c.q[1:]
		sched.WakeThread(t)
	}
}

func (c *Cond) Broadcast() {
	if !sched.Active() {
		c.rc.Broadcast()
		return
	}
	sched.Yield("broadcast", c)
	for _, t := range c.q {
		sched.WakeThread(t)
	}
	c.q = nil
}

// Waiting reports how many threads sit in the cond's queue (model mode).
func (c *Cond) Waiting() int { return len(c.q) }

type Once struct {
	ro gosync.Once
}

func (o *Once) Do(f func()) { o.ro.Do(f) }

func (m *Mutex) Destroy() {}
func (c *Cond) Destroy()  {}
