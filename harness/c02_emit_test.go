package ssa

// Harness injected into package ssa by /verif/govc (go test -overlay; /repo's
// working tree is not modified). It calls the REAL lowering functions
// Builder.BinOp / UnOp / Convert (and, for C03, checkIndex-based helpers) on
// LLVM parameters of every integer type combination and prints the emitted IR,
// one function per case. The run-time operands stay symbolic: the emitted IR
// is the symbolic result of the function under contract for that case, and is
// then checked against the Go-spec operator for ALL operand values by SMT.

import (
	"fmt"
	"go/token"
	"go/types"
	"os"
	"testing"

	"github.com/goplus/gogen/packages"
)

var zzIntKinds = []types.BasicKind{types.Int8, types.Int16, types.Int32, types.Int64, types.Int,
	types.Uint8, types.Uint16, types.Uint32, types.Uint64, types.Uint, types.Uintptr}

var zzBinOps = []token.Token{token.ADD, token.SUB, token.MUL, token.QUO, token.REM, token.AND, token.OR, token.XOR, token.AND_NOT,
	token.EQL, token.NEQ, token.LSS, token.LEQ, token.GTR, token.GEQ}

func zzName(k types.BasicKind) string { return types.Typ[k].Name() }

func zzOpName(op token.Token) string {
	m := map[token.Token]string{token.ADD: "ADD", token.SUB: "SUB", token.MUL: "MUL", token.QUO: "QUO", token.REM: "REM",
		token.AND: "AND", token.OR: "OR", token.XOR: "XOR", token.AND_NOT: "ANDNOT", token.SHL: "SHL", token.SHR: "SHR",
		token.EQL: "EQL", token.NEQ: "NEQ", token.LSS: "LSS", token.LEQ: "LEQ", token.GTR: "GTR", token.GEQ: "GEQ", token.NOT: "NOT"}
	return m[op]
}

func TestZZVerifEmit(t *testing.T) {
	out := os.Getenv("VERIF_EMIT_OUT")
	if out == "" {
		t.Skip("VERIF_EMIT_OUT not set")
	}
	prog := NewProgram(nil)
	prog.SetRuntime(func() *types.Package {
		fset := token.NewFileSet()
		imp := packages.NewImporter(fset)
		pkg, _ := imp.Import(PkgRuntime)
		return pkg
	})
	pkg := prog.NewPackage("zz", "zz")
	mk := func(name string, params []types.Type, res types.Type, body func(b Builder, fn Function) Expr) {
		defer func() {
			if r := recover(); r != nil {
				fmt.Fprintf(os.Stderr, "ZZCASE-PANIC %s: %v\n", name, r)
			}
		}()
		var vars []*types.Var
		for i, p := range params {
			vars = append(vars, types.NewVar(0, nil, fmt.Sprintf("a%d", i), p))
		}
		sig := types.NewSignatureType(nil, nil, nil, types.NewTuple(vars...), types.NewTuple(types.NewVar(0, nil, "", res)), false)
		fn := pkg.NewFunc(name, sig, InGo)
		b := fn.MakeBody(1)
		ret := body(b, fn)
		b.Return(ret)
		b.EndBuild()
	}
	boolT := types.Typ[types.Bool]
	isCmp := func(op token.Token) bool { return op == token.EQL || op == token.NEQ || op == token.LSS || op == token.LEQ || op == token.GTR || op == token.GEQ }
	// binary operators, both operands run-time values
	for _, op := range zzBinOps {
		for _, k := range zzIntKinds {
			op, k := op, k
			T := types.Typ[k]
			res := types.Type(T)
			if isCmp(op) {
				res = boolT
			}
			mk(fmt.Sprintf("binop__%s__%s__%s", zzOpName(op), zzName(k), zzName(k)), []types.Type{T, T}, res, func(b Builder, fn Function) Expr {
				return b.BinOp(op, fn.Param(0), fn.Param(1))
			})
		}
	}
	// the same operation emitted TWICE in one function, in two blocks neither of which
	// dominates the other (`if c { return x op y }; return x op y`): whatever the builder
	// remembers from the first emission, the second must be complete on its own (same guard,
	// same result). Only the LAST block is judged (govc cuts the function at its last label).
	mk2 := func(name string, params []types.Type, res types.Type, body func(b Builder, fn Function) Expr) {
		defer func() {
			if r := recover(); r != nil {
				fmt.Fprintf(os.Stderr, "ZZCASE-PANIC %s: %v\n", name, r)
			}
		}()
		var vars []*types.Var
		for i, p := range params {
			vars = append(vars, types.NewVar(0, nil, fmt.Sprintf("a%d", i), p))
		}
		vars = append(vars, types.NewVar(0, nil, "c", boolT))
		sig := types.NewSignatureType(nil, nil, nil, types.NewTuple(vars...), types.NewTuple(types.NewVar(0, nil, "", res)), false)
		fn := pkg.NewFunc(name, sig, InGo)
		b := fn.MakeBody(3)
		b.If(fn.Param(len(params)), fn.Block(1), fn.Block(2))
		b.SetBlock(fn.Block(1))
		b.Return(body(b, fn))
		b.SetBlock(fn.Block(2))
		b.Return(body(b, fn))
		b.EndBuild()
	}
	for _, op := range []token.Token{token.QUO, token.REM, token.SHL, token.SHR, token.ADD, token.LSS} {
		for _, k := range zzIntKinds {
			op, k := op, k
			T := types.Typ[k]
			res := types.Type(T)
			if isCmp(op) {
				res = boolT
			}
			mk2(fmt.Sprintf("binop__%s__%s__%s__again", zzOpName(op), zzName(k), zzName(k)), []types.Type{T, T}, res, func(b Builder, fn Function) Expr {
				return b.BinOp(op, fn.Param(0), fn.Param(1))
			})
		}
	}
	// shifts: every (operand, count) type pair
	for _, op := range []token.Token{token.SHL, token.SHR} {
		for _, kx := range zzIntKinds {
			for _, ky := range zzIntKinds {
				op, kx, ky := op, kx, ky
				mk(fmt.Sprintf("binop__%s__%s__%s", zzOpName(op), zzName(kx), zzName(ky)), []types.Type{types.Typ[kx], types.Typ[ky]}, types.Typ[kx], func(b Builder, fn Function) Expr {
					return b.BinOp(op, fn.Param(0), fn.Param(1))
				})
			}
		}
	}
	// constant right operand (exercises the constant-folding shortcuts)
	consts := []int64{0, 1, -1, 2, 7, 8, 31, 32, 63, 64, 65, 255, 256}
	if os.Getenv("VERIF_TIER") == "thorough" {
		consts = append(consts, 3, 5, 9, 15, 16, 17, 33, 100, 127, 128, 129, 1000, 32767, 32768, 65535, 65536, -2, -7, -128, -129, 1<<31-1, 1<<31, 1<<32, 1<<62)
	}
	for _, op := range []token.Token{token.QUO, token.REM, token.SHL, token.SHR} {
		for _, k := range zzIntKinds {
			for _, cv := range consts {
				op, k, cv := op, k, cv
				T := types.Typ[k]
				unsigned := T.Info()&types.IsUnsigned != 0
				if cv < 0 && (unsigned || op == token.SHL || op == token.SHR) {
					continue
				}
				bits := int64(prog.SizeOf(prog.Type(T, InGo)) * 8)
				if !unsigned && bits < 64 && cv >= (int64(1)<<(bits-1)) {
					continue
				}
				if unsigned && bits < 64 && cv >= (int64(1)<<bits) {
					continue
				}
				nm := fmt.Sprintf("%d", cv)
				if cv < 0 {
					nm = fmt.Sprintf("m%d", -cv)
				}
				mk(fmt.Sprintf("binopc__%s__%s__%s", zzOpName(op), zzName(k), nm), []types.Type{T}, T, func(b Builder, fn Function) Expr {
					return b.BinOp(op, fn.Param(0), prog.IntVal(uint64(cv), prog.Type(T, InGo)))
				})
			}
		}
	}
	// constant left operand minInt for signed QUO/REM
	for _, op := range []token.Token{token.QUO, token.REM} {
		for _, k := range zzIntKinds[:5] {
			op, k := op, k
			T := types.Typ[k]
			bits := uint(prog.SizeOf(prog.Type(T, InGo)) * 8)
			mk(fmt.Sprintf("binopx__%s__%s__minint", zzOpName(op), zzName(k)), []types.Type{T}, T, func(b Builder, fn Function) Expr {
				return b.BinOp(op, prog.IntVal(uint64(1)<<(bits-1), prog.Type(T, InGo)), fn.Param(0))
			})
		}
	}
	// unary operators
	for _, k := range zzIntKinds {
		k := k
		T := types.Typ[k]
		mk(fmt.Sprintf("unop__SUB__%s", zzName(k)), []types.Type{T}, T, func(b Builder, fn Function) Expr { return b.UnOp(token.SUB, fn.Param(0)) })
		mk(fmt.Sprintf("unop__XOR__%s", zzName(k)), []types.Type{T}, T, func(b Builder, fn Function) Expr { return b.UnOp(token.XOR, fn.Param(0)) })
	}
	mk("unop__NOT__bool", []types.Type{boolT}, boolT, func(b Builder, fn Function) Expr { return b.UnOp(token.NOT, fn.Param(0)) })
	for _, op := range []token.Token{token.EQL, token.NEQ} {
		op := op
		mk(fmt.Sprintf("binop__%s__bool__bool", zzOpName(op)), []types.Type{boolT, boolT}, boolT, func(b Builder, fn Function) Expr {
			return b.BinOp(op, fn.Param(0), fn.Param(1))
		})
	}
	// integer conversions
	for _, ks := range zzIntKinds {
		for _, kd := range zzIntKinds {
			ks, kd := ks, kd
			mk(fmt.Sprintf("conv__%s__%s", zzName(ks), zzName(kd)), []types.Type{types.Typ[ks]}, types.Typ[kd], func(b Builder, fn Function) Expr {
				return b.Convert(prog.Type(types.Typ[kd], InGo), fn.Param(0))
			})
		}
	}
	// floating point: arithmetic and comparisons on both float types, negation,
	// and every conversion between the 11 integer types and the 2 float types
	zzFloatKinds := []types.BasicKind{types.Float32, types.Float64}
	for _, op := range []token.Token{token.ADD, token.SUB, token.MUL, token.QUO, token.EQL, token.NEQ, token.LSS, token.LEQ, token.GTR, token.GEQ} {
		for _, k := range zzFloatKinds {
			op, k := op, k
			T := types.Typ[k]
			res := types.Type(T)
			if isCmp(op) {
				res = boolT
			}
			mk(fmt.Sprintf("binop__%s__%s__%s", zzOpName(op), zzName(k), zzName(k)), []types.Type{T, T}, res, func(b Builder, fn Function) Expr {
				return b.BinOp(op, fn.Param(0), fn.Param(1))
			})
		}
	}
	for _, k := range zzFloatKinds {
		k := k
		T := types.Typ[k]
		mk(fmt.Sprintf("unop__SUB__%s", zzName(k)), []types.Type{T}, T, func(b Builder, fn Function) Expr { return b.UnOp(token.SUB, fn.Param(0)) })
		for _, ki := range zzIntKinds {
			ki := ki
			mk(fmt.Sprintf("conv__%s__%s", zzName(ki), zzName(k)), []types.Type{types.Typ[ki]}, T, func(b Builder, fn Function) Expr {
				return b.Convert(prog.Type(T, InGo), fn.Param(0))
			})
			mk(fmt.Sprintf("conv__%s__%s", zzName(k), zzName(ki)), []types.Type{T}, types.Typ[ki], func(b Builder, fn Function) Expr {
				return b.Convert(prog.Type(types.Typ[ki], InGo), fn.Param(0))
			})
		}
		for _, k2 := range zzFloatKinds {
			k2 := k2
			mk(fmt.Sprintf("conv__%s__%s", zzName(k), zzName(k2)), []types.Type{T}, types.Typ[k2], func(b Builder, fn Function) Expr {
				return b.Convert(prog.Type(types.Typ[k2], InGo), fn.Param(0))
			})
		}
	}
	// complex numbers: + - * == != and unary - on both complex types, conversions between them
	zzComplexKinds := []types.BasicKind{types.Complex64, types.Complex128}
	for _, k := range zzComplexKinds {
		k := k
		T := types.Typ[k]
		for _, op := range []token.Token{token.ADD, token.SUB, token.MUL, token.QUO, token.EQL, token.NEQ} {
			op := op
			res := types.Type(T)
			if isCmp(op) {
				res = boolT
			}
			mk(fmt.Sprintf("binop__%s__%s__%s", zzOpName(op), zzName(k), zzName(k)), []types.Type{T, T}, res, func(b Builder, fn Function) Expr {
				return b.BinOp(op, fn.Param(0), fn.Param(1))
			})
		}
		mk(fmt.Sprintf("unop__SUB__%s", zzName(k)), []types.Type{T}, T, func(b Builder, fn Function) Expr { return b.UnOp(token.SUB, fn.Param(0)) })
		for _, k2 := range zzComplexKinds {
			k2 := k2
			mk(fmt.Sprintf("conv__%s__%s", zzName(k), zzName(k2)), []types.Type{T}, types.Typ[k2], func(b Builder, fn Function) Expr {
				return b.Convert(prog.Type(types.Typ[k2], InGo), fn.Param(0))
			})
		}
	}
	if err := os.WriteFile(out, []byte(pkg.String()), 0o644); err != nil {
		t.Fatal(err)
	}
}
