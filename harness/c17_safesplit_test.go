package safesplit

// BOUNDED stand-in for the pkg-config-style round trip of C17: every list of
// flags "-X<content>" (X a flag letter; content over the alphabet below, not
// starting with '-'; blanks in the content written as "\ " / "\<tab>"), joined
// by one blank, with total length <= K, is split back into the original list.

import (
	"fmt"
	"os"
	"reflect"
	"strconv"
	"strings"
	"testing"
)

func zzJoin(flags []string) string {
	var parts []string
	for _, f := range flags {
		body := f[2:]
		body = strings.ReplaceAll(body, " ", `\ `)
		body = strings.ReplaceAll(body, "\t", "\\\t")
		parts = append(parts, f[:2]+body)
	}
	return strings.Join(parts, " ")
}

func TestZZVerifRoundTrip(t *testing.T) {
	K, _ := strconv.Atoi(os.Getenv("VERIF_C17_K"))
	if K == 0 {
		t.Skip("VERIF_C17_K not set")
	}
	// line terminators inside an argument are ordinary content (only blank and tab separate);
	// at the very end of an argument they are pkg-config's line end and are not generated
	alphabet := []byte{'a', ' ', '\t', '"', '\'', '/', '-', '$', 0xc3, '\n', '\r'}
	endsInLineEnd := func(flags []string) bool {
		for _, f := range flags {
			if n := len(f); n > 0 && (f[n-1] == '\n' || f[n-1] == '\r') {
				return true
			}
		}
		return false
	}
	checked := 0
	var fail []string
	check := func(flags []string) {
		if endsInLineEnd(flags) {
			return
		}
		s := zzJoin(flags)
		got := SplitPkgConfigFlags(s)
		checked++
		if !reflect.DeepEqual(got, flags) {
			if len(fail) < 8 {
				fail = append(fail, fmt.Sprintf("flags=%q joined=%q got=%q", flags, s, got))
			}
		}
	}
	var gen func(flags []string, cur []byte, budget int)
	gen = func(flags []string, cur []byte, budget int) {
		done := append(append([]string{}, flags...), string(cur))
		check(done)
		if budget >= 3 {
			gen(done, []byte("-L"), budget-3)
		}
		for _, c := range alphabet {
			if len(cur) == 2 && c == '-' {
				continue // content must not start with '-': that would be read as the next flag
			}
			cost := 1
			if c == ' ' || c == '\t' {
				cost = 2
			}
			if budget >= cost {
				gen(flags, append(append([]byte{}, cur...), c), budget-cost)
			}
		}
	}
	gen(nil, []byte("-I"), K-2)
	fmt.Printf("ZZBOUNDED safesplit K=%d lists=%d failures=%d\n", K, checked, len(fail))
	for _, f := range fail {
		fmt.Println("ZZFAIL", f)
	}
	if len(fail) > 0 {
		t.Fail()
	}
}
