package abi

// BOUNDED stand-in for the compile-time half of C07 (labelled bounded, never
// counted as proved): over a finite family of types that varies every
// attribute Go's type identity depends on (field names, tags, embedding,
// package of unexported names, field order and types, variadic-ness,
// parameter/result lists, channel direction, array length, map key/element,
// pointer/slice element, named types of equal name in different packages,
// interface method names and signatures), the REAL (*Builder).TypeName must
// give two types the same descriptor name exactly when types.Identical holds.
// Injected via go test -overlay.

import (
	"fmt"
	"go/ast"
	"go/parser"
	"go/token"
	"go/types"
	"os"
	"testing"
)

func TestZZVerifTypeNames(t *testing.T) {
	if os.Getenv("VERIF_C07") == "" {
		t.Skip("VERIF_C07 not set")
	}
	p1 := types.NewPackage("a/x", "x")
	p2 := types.NewPackage("b/x", "x")
	I, S, B := types.Typ[types.Int], types.Typ[types.String], types.Typ[types.Bool]
	v := func(pkg *types.Package, name string, ty types.Type) *types.Var { return types.NewField(token.NoPos, pkg, name, ty, false) }
	emb := func(pkg *types.Package, name string, ty types.Type) *types.Var { return types.NewField(token.NoPos, pkg, name, ty, true) }
	st := func(fields []*types.Var, tags ...string) *types.Struct { return types.NewStruct(fields, tags) }
	named := func(pkg *types.Package, name string, under types.Type) *types.Named {
		return types.NewNamed(types.NewTypeName(token.NoPos, pkg, name, nil), under, nil)
	}
	T1 := named(p1, "T", I)
	T2 := named(p2, "T", I)
	U1 := named(p1, "U", I)
	par := func(ts ...types.Type) *types.Tuple {
		var vs []*types.Var
		for _, x := range ts {
			vs = append(vs, types.NewParam(token.NoPos, nil, "", x))
		}
		return types.NewTuple(vs...)
	}
	sig := func(params, results *types.Tuple, variadic bool) *types.Signature {
		return types.NewSignatureType(nil, nil, nil, params, results, variadic)
	}
	iface := func(ms ...*types.Func) *types.Interface {
		it := types.NewInterfaceType(ms, nil)
		it.Complete()
		return it
	}
	meth := func(pkg *types.Package, name string, s *types.Signature) *types.Func { return types.NewFunc(token.NoPos, pkg, name, s) }
	type entry struct {
		desc string
		ty   types.Type
	}
	mk := func() []entry {
		return []entry{
			{"struct{A int}", st([]*types.Var{v(p1, "A", I)})},
			{"struct{A int} again", st([]*types.Var{v(p1, "A", I)})},
			{"struct{B int}", st([]*types.Var{v(p1, "B", I)})},
			{"struct{A string}", st([]*types.Var{v(p1, "A", S)})},
			{"struct{A int `t`}", st([]*types.Var{v(p1, "A", I)}, "json:\"a\"")},
			{"struct{A int `u`}", st([]*types.Var{v(p1, "A", I)}, "json:\"b\"")},
			{"struct{A int; B string}", st([]*types.Var{v(p1, "A", I), v(p1, "B", S)})},
			{"struct{B string; A int}", st([]*types.Var{v(p1, "B", S), v(p1, "A", I)})},
			{"struct{a int} in a/x", st([]*types.Var{v(p1, "a", I)})},
			{"struct{a int} in b/x", st([]*types.Var{v(p2, "a", I)})},
			{"struct{T} embedded a/x.T", st([]*types.Var{emb(p1, "T", T1)})},
			{"struct{T T} field a/x.T", st([]*types.Var{v(p1, "T", T1)})},
			{"struct{T} embedded b/x.T", st([]*types.Var{emb(p1, "T", T2)})},
			{"struct{*T} embedded", st([]*types.Var{emb(p1, "T", types.NewPointer(T1))})},
			{"func(int)", sig(par(I), nil, false)},
			{"func(int) int", sig(par(I), par(I), false)},
			{"func(int, string)", sig(par(I, S), nil, false)},
			{"func(string, int)", sig(par(S, I), nil, false)},
			{"func([]int)", sig(par(types.NewSlice(I)), nil, false)},
			{"func(...int)", sig(par(types.NewSlice(I)), nil, true)},
			{"func() (int, string)", sig(nil, par(I, S), false)},
			{"func() (string, int)", sig(nil, par(S, I), false)},
			{"chan int", types.NewChan(types.SendRecv, I)},
			{"chan<- int", types.NewChan(types.SendOnly, I)},
			{"<-chan int", types.NewChan(types.RecvOnly, I)},
			{"chan string", types.NewChan(types.SendRecv, S)},
			{"[3]int", types.NewArray(I, 3)},
			{"[4]int", types.NewArray(I, 4)},
			{"[3]string", types.NewArray(S, 3)},
			{"[]int", types.NewSlice(I)},
			{"[]string", types.NewSlice(S)},
			{"*int", types.NewPointer(I)},
			{"*string", types.NewPointer(S)},
			{"map[int]string", types.NewMap(I, S)},
			{"map[string]int", types.NewMap(S, I)},
			{"map[int]bool", types.NewMap(I, B)},
			{"a/x.T", T1},
			{"b/x.T", T2},
			{"a/x.U", U1},
			{"*a/x.T", types.NewPointer(T1)},
			{"*b/x.T", types.NewPointer(T2)},
			{"[]a/x.T", types.NewSlice(T1)},
			{"[]b/x.T", types.NewSlice(T2)},
			{"interface{M()}", iface(meth(p1, "M", sig(nil, nil, false)))},
			{"interface{N()}", iface(meth(p1, "N", sig(nil, nil, false)))},
			{"interface{M() int}", iface(meth(p1, "M", sig(nil, par(I), false)))},
			{"interface{m()} a/x", iface(meth(p1, "m", sig(nil, nil, false)))},
			{"interface{m()} b/x", iface(meth(p2, "m", sig(nil, nil, false)))},
			{"interface{M(); N()}", iface(meth(p1, "M", sig(nil, nil, false)), meth(p1, "N", sig(nil, nil, false)))},
			{"interface{}", iface()},
			{"struct{F func(...int)}", st([]*types.Var{v(p1, "F", sig(par(types.NewSlice(I)), nil, true))})},
			{"struct{F func([]int)}", st([]*types.Var{v(p1, "F", sig(par(types.NewSlice(I)), nil, false))})},
			{"struct{C chan<- int}", st([]*types.Var{v(p1, "C", types.NewChan(types.SendOnly, I))})},
			{"struct{C <-chan int}", st([]*types.Var{v(p1, "C", types.NewChan(types.RecvOnly, I))})},
			{"struct{S struct{A int `t`}}", st([]*types.Var{v(p1, "S", st([]*types.Var{v(p1, "A", I)}, "x"))})},
			{"struct{S struct{A int}}", st([]*types.Var{v(p1, "S", st([]*types.Var{v(p1, "A", I)}))})},
		}
	}
	fam := mk()
	// types taken from type-checked source: function-local types of the same name in
	// different functions and block scopes, local aliases, generic instantiations
	{
		const src = `package demo

type Box[T any] struct{ v T }
type Pair[K comparable, V any] struct { k K; v V }

func F() {
	type T int
	var fn func(T) bool
	var st struct{ Cmp func(a, b T) int }
	var it interface{ Less(T) bool }
	var bx Box[T]
	var sl []T
	_, _, _, _, _ = fn, st, it, bx, sl
	{
		type T uint8
		var fn2 func(T) bool
		var bx2 Box[T]
		_, _ = fn2, bx2
	}
}

func G() {
	type T string
	var fn func(T) bool
	var st struct{ Cmp func(a, b T) int }
	var it interface{ Less(T) bool }
	var bx Box[T]
	var sl []T
	_, _, _, _, _ = fn, st, it, bx, sl
}

func H() {
	type U string
	var fn func(U) bool
	var bx Box[U]
	_, _ = fn, bx
}

func A1() { type A = int; var fn func(A) A; _ = fn }
func A2() { type A = string; var fn func(A) A; _ = fn }

func I() {
	var b1 Box[int]
	var b2 Box[string]
	var b3 Box[Box[int]]
	var p1 Pair[int, string]
	var p2 Pair[string, int]
	var f1 func(Box[int]) Box[string]
	var f2 func(Box[string]) Box[int]
	_, _, _, _, _, _, _ = b1, b2, b3, p1, p2, f1, f2
}

// every attribute of type identity once more, INSIDE a type argument (directly and
// below a slice, map, pointer or function constructor)
type E struct{ x int }

func J() {
	var g1 Box[struct{ E }]
	var g2 Box[struct{ E E }]
	var g3 Box[struct{ *E }]
	var g4 Box[struct{ E *E }]
	var g5 Box[struct{ A int }]
	var g6 Box[struct{ B int }]
	var g7 Box[struct{ A int ` + "`t`" + ` }]
	var g8 Box[func(...int)]
	var g9 Box[func([]int)]
	var g10 Box[chan<- int]
	var g11 Box[<-chan int]
	var g12 Box[chan int]
	var g13 Box[[]struct{ E }]
	var g14 Box[[]struct{ E E }]
	var g15 Box[interface{ M() }]
	var g16 Box[interface{ N() }]
	var g17 Box[func(int) (int, error)]
	var g18 Box[func(int) int]
	var g19 Box[[3]int]
	var g20 Box[[4]int]
	var g21 Box[map[string]struct{ E }]
	var g22 Box[map[string]struct{ E E }]
	var g23 Pair[int, struct{ E }]
	var g24 Pair[int, struct{ E E }]
	var g25 Box[func(a struct{ E })]
	var g26 Box[func(a struct{ E E })]
	var g27 Box[*struct{ E }]
	var g28 Box[*struct{ E E }]
	var g29 Box[struct{ A, B int }]
	var g30 Box[struct{ B, A int }]
	var g31 Box[func(a, b int)]
	var g32 Box[func(int, int)]
	_, _, _, _, _, _, _, _ = g1, g2, g3, g4, g5, g6, g7, g8
	_, _, _, _, _, _, _, _ = g9, g10, g11, g12, g13, g14, g15, g16
	_, _, _, _, _, _, _, _ = g17, g18, g19, g20, g21, g22, g23, g24
	_, _, _, _, _, _, _, _ = g25, g26, g27, g28, g29, g30, g31, g32
}
`
		fset := token.NewFileSet()
		f, err := parser.ParseFile(fset, "demo.go", src, 0)
		if err != nil {
			t.Fatal(err)
		}
		info := &types.Info{Defs: map[*ast.Ident]types.Object{}}
		if _, err = (&types.Config{}).Check("example.com/demo", fset, []*ast.File{f}, info); err != nil {
			t.Fatal(err)
		}
		for _, d := range f.Decls {
			fd, ok := d.(*ast.FuncDecl)
			if !ok {
				continue
			}
			ast.Inspect(fd.Body, func(n ast.Node) bool {
				if vs, ok := n.(*ast.ValueSpec); ok {
					for _, id := range vs.Names {
						if o := info.Defs[id]; o != nil {
							fam = append(fam, entry{fmt.Sprintf("%s.%s at line %d: %s", fd.Name.Name, id.Name, fset.Position(id.Pos()).Line, o.Type()), o.Type()})
						}
					}
				}
				return true
			})
		}
	}
	b := New(8, &types.StdSizes{WordSize: 8, MaxAlign: 8})
	names := make([]string, len(fam))
	for i, e := range fam {
		names[i], _ = b.TypeName(e.ty)
	}
	pairs, bad := 0, 0
	for i := range fam {
		for j := i + 1; j < len(fam); j++ {
			pairs++
			same := names[i] == names[j]
			ident := types.Identical(fam[i].ty, fam[j].ty)
			if same != ident {
				bad++
				fmt.Printf("ZZFAIL identical=%v same-descriptor-name=%v : %s  vs  %s  (name %q)\n", ident, same, fam[i].desc, fam[j].desc, names[i])
			}
		}
	}
	fmt.Printf("ZZBOUNDED typenames types=%d pairs=%d failures=%d\n", len(fam), pairs, bad)
	if bad > 0 {
		t.Fail()
	}
}
