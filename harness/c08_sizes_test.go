package ssa

// BOUNDED stand-in for C08 (labelled bounded, not a proof): for a fixed family
// of Go types (every basic kind exhaustively; pointers, slices, maps, chans,
// funcs, interfaces; arrays; all structs of up to three fields over a field
// alphabet that mixes every alignment class and function values) and for the
// pointer widths 8 (host) and 4 (wasm), the three real computations
//   (a) goProgram.Sizeof/Alignof/Offsetsof   (folds unsafe.Sizeof/Alignof/Offsetof)
//   (b) LLVM data layout of the lowered type  (what generated code uses)
//   (c) abi.Builder.Size/Align                (what the run-time descriptors record)
// must give the same numbers. Injected via go test -overlay (-tags llvm14).

import (
	"fmt"
	"go/ast"
	"go/importer"
	"go/parser"
	"go/token"
	"go/types"
	"os"
	"sort"
	"testing"

	"github.com/goplus/gogen/packages"
)

func TestZZVerifSizes(t *testing.T) {
	if os.Getenv("VERIF_C08") == "" {
		t.Skip("VERIF_C08 not set")
	}
	pkg := types.NewPackage("zz", "zz")
	fld := func(i int, ty types.Type) *types.Var {
		return types.NewField(token.NoPos, pkg, fmt.Sprintf("F%d", i), ty, false)
	}
	st := func(ts ...types.Type) *types.Struct {
		var fs []*types.Var
		for i, x := range ts {
			fs = append(fs, fld(i, x))
		}
		return types.NewStruct(fs, nil)
	}
	sig := types.NewSignatureType(nil, nil, nil, nil, nil, false)
	var basics []types.Type
	for _, k := range []types.BasicKind{types.Bool, types.Int, types.Int8, types.Int16, types.Int32, types.Int64, types.Uint, types.Uint8, types.Uint16,
		types.Uint32, types.Uint64, types.Uintptr, types.Float32, types.Float64, types.Complex64, types.Complex128, types.String, types.UnsafePointer} {
		basics = append(basics, types.Typ[k])
	}
	I8, I16, I32, I64, F64, S := types.Typ[types.Int8], types.Typ[types.Int16], types.Typ[types.Int32], types.Typ[types.Int64], types.Typ[types.Float64], types.Typ[types.String]
	B := types.Typ[types.Bool]
	emptyI := types.NewInterfaceType(nil, nil)
	emptyI.Complete()
	alpha := []types.Type{B, I8, I16, I32, I64, F64, S, sig, types.NewPointer(I8), types.NewArray(I8, 3), st(I8, I64), types.Typ[types.Complex64], emptyI, types.NewSlice(I32)}
	small := []types.Type{I8, I32, I64, sig, S, types.NewArray(I16, 3)}
	var fam []types.Type
	fam = append(fam, basics...)
	fam = append(fam, types.NewPointer(I64), types.NewSlice(I8), types.NewMap(I64, S), types.NewChan(types.SendRecv, I8), sig, emptyI)
	for _, e := range alpha {
		for _, n := range []int64{0, 1, 3} {
			fam = append(fam, types.NewArray(e, n))
		}
		fam = append(fam, st(e))
	}
	for _, a := range alpha {
		for _, b := range alpha {
			fam = append(fam, st(a, b))
		}
	}
	if os.Getenv("VERIF_TIER") == "thorough" {
		small = alpha // all three-field structs over the full alphabet
	}
	for _, a := range small {
		for _, b := range small {
			for _, c := range small {
				fam = append(fam, st(a, b, c))
			}
		}
	}
	// nested aggregates with trailing padding followed by a small field, arrays of padded structs,
	// zero-size tail fields, named types
	pad := []types.Type{st(I32, I8), st(I64, I8), st(S, B), st(sig, I8), st(I16, I8), st(I8, types.NewArray(I64, 0)), st(I32, st())}
	for _, a := range pad {
		fam = append(fam, a, st(a, I8), st(I8, a, I8), types.NewArray(a, 2), st(types.NewArray(a, 2), I8), st(st(a, I8), I16), st(I8, types.NewArray(a, 0)))
	}
	// less common shapes: complex numbers inside arrays inside structs, arrays of arrays, three
	// levels of nesting, interface / chan / map fields between small fields, runs of small
	// fields followed by pointers
	C64, C128 := types.Typ[types.Complex64], types.Typ[types.Complex128]
	U16 := types.Typ[types.Uint16]
	fam = append(fam,
		st(I8, types.NewArray(C128, 2), I8), st(I8, types.NewArray(C64, 3), I16), types.NewArray(st(I8, C128), 2),
		types.NewArray(types.NewArray(I16, 3), 2), st(I8, types.NewArray(types.NewArray(I32, 2), 2), I8), types.NewArray(types.NewArray(st(I8, I64), 2), 2),
		st(I8, st(I16, st(I8, I64, I8), I8), I8), st(st(st(I8), I16), I32), st(I8, st(st(sig, I8), I8), I8),
		st(I8, emptyI, I8), st(B, types.NewChan(types.SendRecv, I64), B), st(I8, types.NewMap(S, I64), I16), st(I8, types.NewSlice(I8), I8, S, I8),
		st(B, B, B, types.NewPointer(I8)), st(I8, I8, U16, types.NewPointer(I64), B), st(B, I8, I8, I8, I8, I32, types.NewPointer(I8), B),
		st(F64, I8, types.Typ[types.Float32], I8, C64), st(I8, types.NewArray(sig, 2), I8, types.NewArray(emptyI, 2), B))
	named := types.NewNamed(types.NewTypeName(token.NoPos, pkg, "N", nil), st(I8, sig, I64), nil)
	fam = append(fam, named, st(I8, named), types.NewArray(named, 2))
	fam = append(fam, st(I8, st(sig, I8), I64), st(st(I8, sig), types.NewArray(st(sig, I8), 2), I8), types.NewArray(st(I8, sig, I16), 3))
	total, bad := 0, 0
	counts := map[string][2]int{} // "target,category" -> {cases, failures}
	var has func(t types.Type, pred func(types.Type) bool) bool
	has = func(t types.Type, pred func(types.Type) bool) bool {
		if pred(t) {
			return true
		}
		switch u := t.Underlying().(type) {
		case *types.Struct:
			for i := 0; i < u.NumFields(); i++ {
				if has(u.Field(i).Type(), pred) {
					return true
				}
			}
		case *types.Array:
			return has(u.Elem(), pred)
		}
		return false
	}
	category := func(t types.Type) string {
		isFunc := func(x types.Type) bool { _, ok := x.Underlying().(*types.Signature); return ok }
		is8 := func(x types.Type) bool {
			b, ok := x.Underlying().(*types.Basic)
			return ok && (b.Kind() == types.Int64 || b.Kind() == types.Uint64 || b.Kind() == types.Float64 || b.Kind() == types.Complex128)
		}
		zeroTail := func(x types.Type) bool {
			st, ok := x.Underlying().(*types.Struct)
			if !ok || st.NumFields() == 0 {
				return false
			}
			return types.SizesFor("gc", "amd64").Sizeof(st.Field(st.NumFields()-1).Type()) == 0
		}
		switch {
		case has(t, zeroTail):
			return "zerotail"
		case has(t, isFunc) && has(t, is8):
			return "funcvalue_align8"
		case has(t, isFunc):
			return "funcvalue"
		case has(t, is8):
			return "align8"
		}
		return "plain"
	}
	for _, tg := range []*Target{nil, {GOOS: "wasip1", GOARCH: "wasm"}} {
		name := "host"
		if tg != nil {
			name = "wasm32"
		}
		prog := NewProgram(tg)
		// the sizes the build hands to the type checker (internal/build/build.go)
		if tg != nil {
			// VERIF_C08_WASM = "<WordSize>,<MaxAlign>" as written in internal/build/build.go (read by govc)
			var ws, ma int64 = 4, 4
			fmt.Sscanf(os.Getenv("VERIF_C08_WASM"), "%d,%d", &ws, &ma)
			prog.TypeSizes(&types.StdSizes{WordSize: ws, MaxAlign: ma})
		} else {
			prog.TypeSizes(types.SizesFor("gc", "amd64"))
		}
		prog.SetRuntime(func() *types.Package {
			fset := token.NewFileSet()
			imp := packages.NewImporter(fset)
			rt, _ := imp.Import(PkgRuntime)
			return rt
		})
		gp := (*goProgram)(prog)
		for _, T := range fam {
			func() {
				key := name + "_" + category(T)
				bad0 := bad
				defer func() {
					if r := recover(); r != nil {
						bad++
						fmt.Printf("ZZFAIL ["+key+"] target=%s type=%s panic: %v\n", name, T, r)
					}
					c := counts[key]
					c[0]++
					if bad > bad0 {
						c[1]++
					}
					counts[key] = c
				}()
				total++
				lt := prog.Type(T, InGo)
				// descriptors are generated for the lowered Go type (function values are closure structs)
				a, b, c := gp.Sizeof(T), int64(prog.SizeOf(lt)), int64(prog.abi.Size(lt.raw.Type))
				if a != b || b != c {
					bad++
					fmt.Printf("ZZFAIL ["+key+"] target=%s type=%s size: folded=%d llvm=%d descriptor=%d\n", name, T, a, b, c)
				}
				aa, ba, ca := gp.Alignof(T), int64(prog.td.ABITypeAlignment(lt.ll)), int64(prog.abi.Align(lt.raw.Type))
				if b != 0 && (aa != ba || ba != ca) {
					bad++
					fmt.Printf("ZZFAIL ["+key+"] target=%s type=%s align: folded=%d llvm=%d descriptor=%d\n", name, T, aa, ba, ca)
				}
				if s, ok := T.Underlying().(*types.Struct); ok && s.NumFields() > 0 {
					var fs []*types.Var
					for i := 0; i < s.NumFields(); i++ {
						fs = append(fs, s.Field(i))
					}
					offs := gp.Offsetsof(fs)
					for i := range fs {
						if lo := int64(prog.OffsetOf(lt, i)); lo != offs[i] {
							bad++
							fmt.Printf("ZZFAIL ["+key+"] target=%s type=%s offset of field %d: folded=%d llvm=%d\n", name, T, i, offs[i], lo)
						}
					}
				}
			}()
		}
	}
	// emitted descriptors (host): Size / Align / FieldAlign of the common header and the
	// per-field offsets of struct descriptors as they are written into the module must be
	// the numbers of the LLVM layout
	{
		prog := NewProgram(nil)
		prog.TypeSizes(types.SizesFor("gc", "amd64"))
		prog.SetRuntime(func() *types.Package {
			imp := packages.NewImporter(token.NewFileSet())
			if pkg, _ := imp.Import(PkgRuntime); pkg != nil && pkg.Scope().Lookup("structtype") != nil {
				return pkg
			}
			pkg, err := importer.For("source", nil).Import(PkgRuntime)
			if err != nil {
				t.Fatal(err)
			}
			return pkg
		})
		epkg := prog.NewPackage("main", "main")
		fn := epkg.NewFunc("main.use", NoArgsNoRet, InGo)
		b := fn.MakeBody(1)
		key := "host_emitted"
		for _, T := range fam {
			if category(T) == "zerotail" {
				continue // known finding, see the zerotail groups
			}
			func() {
				bad0 := bad
				defer func() {
					if r := recover(); r != nil {
						bad++
						fmt.Printf("ZZFAIL ["+key+"] type=%s panic: %v\n", T, r)
					}
					c := counts[key]
					c[0]++
					if bad > bad0 {
						c[1]++
					}
					counts[key] = c
				}()
				lt := prog.Type(T, InGo)
				raw := lt.raw.Type
				switch raw.Underlying().(type) {
				case *types.Struct, *types.Array:
				default:
					return
				}
				b.abiType(raw)
				name, _ := prog.abi.TypeName(raw)
				g := epkg.VarOf(name)
				if g == nil {
					panic("descriptor " + name + " not emitted")
				}
				// the common header is the innermost first member of type abi.Type
				common := g.impl.Initializer()
				for depth := 0; depth < 4 && common.Type().StructName() != "github.com/goplus/llgo/runtime/abi.Type"; depth++ {
					common = common.Operand(0)
				}
				if common.Type().StructName() != "github.com/goplus/llgo/runtime/abi.Type" {
					panic("common descriptor header not found in " + name)
				}
				dSize, dAlign, dFieldAlign := int64(common.Operand(0).ZExtValue()), int64(common.Operand(4).ZExtValue()), int64(common.Operand(5).ZExtValue())
				llSize, llAlign := int64(prog.SizeOf(lt)), int64(prog.td.ABITypeAlignment(lt.ll))
				if dSize != llSize || (llSize != 0 && (dAlign != llAlign || dFieldAlign != llAlign)) {
					bad++
					fmt.Printf("ZZFAIL ["+key+"] type=%s emitted descriptor size=%d align=%d fieldalign=%d; llvm size=%d align=%d\n", T, dSize, dAlign, dFieldAlign, llSize, llAlign)
				}
				if rs, ok := raw.Underlying().(*types.Struct); ok && rs.NumFields() > 0 {
					fg := epkg.VarOf(name + "$fields")
					if fg == nil {
						// a named struct type shares the field table of its underlying struct type
						un, _ := prog.abi.TypeName(raw.Underlying())
						fg = epkg.VarOf(un + "$fields")
					}
					if fg == nil {
						panic("field table of " + name + " not emitted")
					}
					ftab := fg.impl.Initializer()
					for i := 0; i < rs.NumFields(); i++ {
						if dOff, llOff := int64(ftab.Operand(i).Operand(2).ZExtValue()), int64(prog.OffsetOf(lt, i)); dOff != llOff {
							bad++
							fmt.Printf("ZZFAIL ["+key+"] type=%s emitted offset of field %d = %d, llvm %d\n", T, i, dOff, llOff)
						}
					}
				}
			}()
		}
		b.Return()
	}
	// map descriptors: the key/elem slot sizes and the bucket size recorded in the emitted
	// descriptor must be those of the bucket layout the run-time map code indexes
	// (keys/elems larger than 128 bytes are stored as pointers)
	{
		prog := NewProgram(nil)
		prog.TypeSizes(types.SizesFor("gc", "amd64"))
		prog.SetRuntime(func() *types.Package {
			imp := packages.NewImporter(token.NewFileSet())
			if pkg, _ := imp.Import(PkgRuntime); pkg != nil && pkg.Scope().Lookup("structtype") != nil {
				return pkg
			}
			pkg, err := importer.For("source", nil).Import(PkgRuntime)
			if err != nil {
				t.Fatal(err)
			}
			return pkg
		})
		mpkg := prog.NewPackage("main", "main")
		fn := mpkg.NewFunc("main.use", NoArgsNoRet, InGo)
		b := fn.MakeBody(1)
		U8 := types.Typ[types.Uint8]
		sizes := []types.Type{I8, I64, S, types.NewArray(U8, 127), types.NewArray(U8, 128), types.NewArray(U8, 129), types.NewArray(U8, 200),
			types.NewArray(U8, 256), types.NewArray(U8, 300), types.NewArray(I64, 17), st(S, I64, types.NewArray(I64, 20))}
		var maps []*types.Map
		for _, k := range sizes {
			for _, e := range sizes {
				maps = append(maps, types.NewMap(k, e))
			}
		}
		for _, m := range maps {
			b.abiType(m)
		}
		b.Return()
		key := "host_mapdesc"
		for _, m := range maps {
			func() {
				bad0 := bad
				defer func() {
					if r := recover(); r != nil {
						bad++
						fmt.Printf("ZZFAIL ["+key+"] type=%s panic: %v\n", m, r)
					}
					c := counts[key]
					c[0]++
					if bad > bad0 {
						c[1]++
					}
					counts[key] = c
				}()
				name, _ := prog.abi.TypeName(m)
				init := mpkg.VarOf(name).impl.Initializer()
				ks, vs, bs := int64(init.Operand(5).ZExtValue()), int64(init.Operand(6).ZExtValue()), int64(init.Operand(7).ZExtValue())
				bt := prog.abi.MapBucket(m).Underlying().(*types.Struct)
				lb := prog.Type(prog.abi.MapBucket(m), InGo)
				slotK := int64(prog.SizeOf(prog.Type(bt.Field(1).Type().(*types.Array).Elem(), InGo)))
				slotE := int64(prog.SizeOf(prog.Type(bt.Field(2).Type().(*types.Array).Elem(), InGo)))
				if ks != slotK || vs != slotE || bs != int64(prog.SizeOf(lb)) {
					bad++
					fmt.Printf("ZZFAIL ["+key+"] type=%s descriptor KeySize=%d ValueSize=%d BucketSize=%d; bucket layout has key slots of %d, elem slots of %d bytes, bucket size %d\n", m, ks, vs, bs, slotK, slotE, prog.SizeOf(lb))
				}
			}()
		}
	}
	// declared (named) types as a type-checked program has them: package-level types, generic
	// instantiations, and function-local types of the same name with different layouts, all through
	// ONE Program / ONE descriptor builder, in declaration order and in reverse order
	{
		key := "host_named"
		named := c08NamedTypes(t)
		for pass := 0; pass < 2; pass++ {
			prog := NewProgram(nil)
			prog.TypeSizes(types.SizesFor("gc", "amd64"))
			prog.SetRuntime(func() *types.Package {
				imp := packages.NewImporter(token.NewFileSet())
				rt, _ := imp.Import(PkgRuntime)
				return rt
			})
			gp := (*goProgram)(prog)
			order := append([]types.Type{}, named...)
			if pass == 1 {
				for i, j := 0, len(order)-1; i < j; i, j = i+1, j-1 {
					order[i], order[j] = order[j], order[i]
				}
			}
			for _, N := range order {
				for _, T := range []types.Type{N, types.NewArray(N, 2), st(I8, N), types.NewArray(st(N, I8), 3)} {
					func() {
						bad0 := bad
						defer func() {
							if r := recover(); r != nil {
								bad++
								fmt.Printf("ZZFAIL ["+key+"] type=%s (%s) panic: %v\n", T, T.Underlying(), r)
							}
							c := counts[key]
							c[0]++
							if bad > bad0 {
								c[1]++
							}
							counts[key] = c
						}()
						total++
						lt := prog.Type(T, InGo)
						a, b, c := gp.Sizeof(T), int64(prog.SizeOf(lt)), int64(prog.abi.Size(lt.raw.Type))
						if a != b || b != c {
							bad++
							fmt.Printf("ZZFAIL ["+key+"] type=%s (%s) pass=%d size: folded=%d llvm=%d descriptor=%d\n", T, T.Underlying(), pass, a, b, c)
						}
						aa, ba, ca := gp.Alignof(T), int64(prog.td.ABITypeAlignment(lt.ll)), int64(prog.abi.Align(lt.raw.Type))
						if b != 0 && (aa != ba || ba != ca) {
							bad++
							fmt.Printf("ZZFAIL ["+key+"] type=%s (%s) pass=%d align: folded=%d llvm=%d descriptor=%d\n", T, T.Underlying(), pass, aa, ba, ca)
						}
					}()
				}
			}
		}
	}
	for _, key := range []string{"host_named", "host_mapdesc", "host_emitted", "host_plain", "host_align8", "host_funcvalue", "host_funcvalue_align8", "host_zerotail", "wasm32_plain", "wasm32_align8", "wasm32_funcvalue", "wasm32_funcvalue_align8", "wasm32_zerotail"} {
		c := counts[key]
		fmt.Printf("ZZBOUNDED %s types=%d pairs=%d failures=%d\n", key, len(fam), c[0], c[1])
	}
	if bad > 0 {
		t.Fail()
	}
}


const c08NamedSrc = `package zn

type Small struct{ tag int8 }

func (Small) Kind() int { return 0 }

type Wide struct {
	id int64
	w  [2]complex128
}

type Pair[T any] struct {
	a T
	b int8
}

type Arr[T any] [3]T

type Fn func(int) int

type FnAlias = func(int) int

type WithAlias struct {
	pre  int8
	f    FnAlias
	post int8
}

type ArrAlias = [2]func()

type WithArrAlias struct {
	a    ArrAlias
	post int8
}

type WideAlias = Wide

type WithWideAlias struct {
	pre int8
	w   WideAlias
}

var (
	_ Pair[int8]
	_ Pair[int64]
	_ Pair[string]
	_ Pair[Small]
	_ Arr[int8]
	_ Arr[float64]
	_ Arr[Wide]
)

func first() any {
	type rec struct {
		tag  int8
		flag bool
	}
	type cell [3]int8
	type num int8
	type gen = Pair[num]
	return [4]any{rec{}, cell{}, num(0), gen{}}
}

func second() any {
	type rec struct {
		id   int64
		w    [2]complex128
		ok   bool
		next *Small
	}
	type cell [3]complex64
	type num float64
	type gen = Pair[num]
	return [4]any{rec{}, cell{}, num(0), gen{}}
}

func third() any {
	type rec struct {
		s string
		f Fn
		b bool
	}
	type cell [2]string
	type num complex128
	if true {
		type num int16
		_ = num(0)
	}
	return [3]any{rec{}, cell{}, num(0)}
}
`

// c08NamedTypes type-checks c08NamedSrc and returns every declared type and every generic
// instantiation in it, in source order.
func c08NamedTypes(t *testing.T) []types.Type {
	fset := token.NewFileSet()
	f, err := parser.ParseFile(fset, "zn.go", c08NamedSrc, 0)
	if err != nil {
		t.Fatal(err)
	}
	info := &types.Info{Defs: map[*ast.Ident]types.Object{}, Instances: map[*ast.Ident]types.Instance{}}
	znPkg, err := (&types.Config{}).Check("zn", fset, []*ast.File{f}, info)
	if err != nil {
		t.Fatal(err)
	}
	type ent struct {
		pos token.Pos
		t   types.Type
	}
	var ents []ent
	for id, obj := range info.Defs {
		if tn, ok := obj.(*types.TypeName); ok && !tn.IsAlias() {
			if n, ok := tn.Type().(*types.Named); ok && n.TypeParams().Len() == 0 {
				ents = append(ents, ent{id.Pos(), n})
			}
		}
	}
	for id, inst := range info.Instances {
		if _, ok := inst.Type.(*types.Named); ok {
			ents = append(ents, ent{id.Pos(), inst.Type})
		}
	}
	sort.Slice(ents, func(i, j int) bool { return ents[i].pos < ents[j].pos })
	var ret []types.Type
	for _, e := range ents {
		ret = append(ret, e.t)
	}
	if len(ret) < 20 {
		t.Fatalf("only %d declared types found", len(ret))
	}
	// DISTINCT named struct types that reach the Program under the SAME full name, as cl
	// produces them for local types of generic-function instances (two generic functions each
	// declaring `type entry struct{...}`, instantiated with the same type argument, are both
	// renamed "entry[int32]·1"): same field count and same kind of every member, different
	// widths / array lengths / nested bodies. Each must keep its own layout.
	look := func(name string) types.Type { return znPkg.Scope().Lookup(name).Type() }
	mk := func(name string, fields ...types.Type) types.Type {
		var vs []*types.Var
		for i, ft := range fields {
			vs = append(vs, types.NewField(token.NoPos, znPkg, fmt.Sprintf("f%d", i), ft, false))
		}
		return types.NewNamed(types.NewTypeName(token.NoPos, znPkg, name, nil), types.NewStruct(vs, nil), nil)
	}
	bt := func(k types.BasicKind) types.Type { return types.Typ[k] }
	inner := func(k types.BasicKind) types.Type {
		return types.NewStruct([]*types.Var{types.NewField(token.NoPos, znPkg, "x", bt(k), false)}, nil)
	}
	ret = append(ret,
		mk("entry[int32]·1", bt(types.Int32), bt(types.Int32), look("Small"), types.NewArray(bt(types.Int16), 4)),
		mk("entry[int32]·1", bt(types.Int32), bt(types.Int64), look("Wide"), types.NewArray(bt(types.Int16), 9)),
		mk("node·1", bt(types.Int8), bt(types.Int8)),
		mk("node·1", bt(types.Int64), bt(types.Int8)),
		mk("box·1", types.NewArray(bt(types.Int32), 2)),
		mk("box·1", types.NewArray(bt(types.Int32), 5)),
		mk("wrap·1", inner(types.Int8), bt(types.Bool)),
		mk("wrap·1", inner(types.Int64), bt(types.Bool)),
		mk("flt·1", bt(types.Float32), bt(types.Int8)),
		mk("flt·1", bt(types.Float64), bt(types.Int8)),
	)
	return ret
}
