package ssa

// BOUNDED stand-in for the compile-time half of C07 that the run-time proofs
// ASSUME (labelled bounded, never counted as proved): the method tables the
// compiler emits into type descriptors.
//
// The verified run-time functions (Implements, findMethod: contracts in
// runtime/internal/runtime/zz_verif_contracts.go) decide "V has T's method m"
// by equality of the emitted name string and of the emitted function-type
// descriptor, under the assumption that every table is strictly sorted by
// name. This harness drives the REAL descriptor emitter (Builder.abiType ->
// abiUncommonMethods / interface imethods) for a family of types and
// interfaces spread over three packages and checks, on the emitted LLVM
// constants:
//   1. every method-table entry is named by the go/types method id (exported:
//      the bare name; unexported: "<package path of the METHOD>.<name>") and
//      the tables are strictly sorted by that name;
//   2. for EVERY (type, interface) pair of the family, the run-time criterion
//      evaluated on the emitted tables (each interface method has an entry of
//      equal name and equal function-type descriptor) agrees with
//      types.Implements.
// Injected via go test -overlay (-tags llvm14).

import (
	"fmt"
	"go/ast"
	"go/importer"
	"go/parser"
	"go/token"
	"go/types"
	"os"
	"runtime"
	"sort"
	"testing"

	"github.com/goplus/gogen/packages"
	"github.com/xgo-dev/llvm"
)

const zzSrcA = `package x

type Base struct{ N int }

func (Base) m() int        { return 1 }
func (Base) Pub() int      { return 2 }
func (*Base) ptr()         {}
func (Base) Same(x int) int { return x }

type I interface{ m() int }
type IPub interface{ Pub() int }
type IBoth interface {
	m() int
	Pub() int
}
type IPtr interface{ ptr() }
type Named int

func (Named) String() string { return "" }
func (Named) hidden()        {}
`

const zzSrcB = `package x

type Base struct{ S string }

func (Base) m() int          { return 3 }
func (Base) Pub() string     { return "" }
func (Base) Same(x int) int  { return x }

type I interface{ m() int }
type IPubS interface{ Pub() string }
`

const zzSrcMain = `package main

import (
	ax "a/x"
	bx "b/x"
)

type T struct {
	ax.Base
	X int
}

type U struct {
	ax.Base
	X int
}

func (U) m() string { return "" }

type V struct {
	*ax.Base
}

type W struct {
	bx.Base
}

type Both struct {
	A ax.Base
	bx.Base
}

type Own struct{}

func (Own) m() int   { return 0 }
func (Own) Pub() int { return 0 }
func (*Own) ptr()    {}

type N2 struct{ ax.Named }

type J interface{ m() int }
type JS interface{ m() string }
type JPub interface{ Pub() int }
type JSame interface{ Same(int) int }
type JStr interface{ String() string }
type JAll interface {
	J
	JPub
}
type JEmbedA interface {
	ax.I
	Pub() int
}
type Empty interface{}
`

type zzImporter map[string]*types.Package

func (m zzImporter) Import(path string) (*types.Package, error) { return m[path], nil }

func zzCheck(t *testing.T, fset *token.FileSet, path, src string, imp types.Importer) *types.Package {
	f, err := parser.ParseFile(fset, path+".go", src, 0)
	if err != nil {
		t.Fatal(err)
	}
	pkg, err := (&types.Config{Importer: imp}).Check(path, fset, []*ast.File{f}, nil)
	if err != nil {
		t.Fatal(err)
	}
	return pkg
}

type zzMethod struct{ name, typ string }

func zzStr(v llvm.Value) string {
	p := v.Operand(0)
	for p.IsAGlobalVariable().IsNil() {
		p = p.Operand(0)
	}
	s := p.Initializer().ConstGetAsString()
	return s[:int(v.Operand(1).ZExtValue())]
}

func zzGlobalName(v llvm.Value) string {
	for v.IsAGlobalVariable().IsNil() {
		v = v.Operand(0)
	}
	return v.Name()
}

func TestZZVerifMethodTables(t *testing.T) {
	if os.Getenv("VERIF_C07") == "" {
		t.Skip("VERIF_C07 not set")
	}
	fset := token.NewFileSet()
	pa := zzCheck(t, fset, "a/x", zzSrcA, nil)
	pb := zzCheck(t, fset, "b/x", zzSrcB, nil)
	pm := zzCheck(t, fset, "main", zzSrcMain, zzImporter{"a/x": pa, "b/x": pb})

	prog := NewProgram(nil)
	prog.TypeSizes(types.SizesFor("gc", runtime.GOARCH))
	prog.SetRuntime(func() *types.Package {
		imp := packages.NewImporter(token.NewFileSet())
		if pkg, _ := imp.Import(PkgRuntime); pkg != nil && pkg.Scope().Lookup("structtype") != nil {
			return pkg
		}
		pkg, err := importer.For("source", nil).Import(PkgRuntime)
		if err != nil {
			t.Fatal(err)
		}
		return pkg
	})
	pkg := prog.NewPackage("main", "main")
	fn := pkg.NewFunc("main.use", NoArgsNoRet, InGo)
	b := fn.MakeBody(1)

	type ent struct {
		desc string
		typ  types.Type
	}
	var concrete, ifaces []ent
	add := func(p *types.Package, names ...string) {
		for _, n := range names {
			ty := p.Scope().Lookup(n).Type()
			d := p.Path() + "." + n
			if types.IsInterface(ty) {
				ifaces = append(ifaces, ent{d, ty})
			} else {
				concrete = append(concrete, ent{d, ty}, ent{"*" + d, types.NewPointer(ty)})
			}
		}
	}
	add(pa, "Base", "Named", "I", "IPub", "IBoth", "IPtr")
	add(pb, "Base", "I", "IPubS")
	add(pm, "T", "U", "V", "W", "Both", "Own", "N2", "J", "JS", "JPub", "JSame", "JStr", "JAll", "JEmbedA", "Empty")
	for _, e := range append(append([]ent{}, concrete...), ifaces...) {
		b.abiType(e.typ)
	}
	b.Return()

	bad := 0
	fail := func(format string, args ...interface{}) {
		bad++
		fmt.Printf("ZZFAIL "+format+"\n", args...)
	}
	typeMethods := func(e ent) ([]zzMethod, bool) {
		sym, _ := prog.abi.TypeName(e.typ)
		g := pkg.VarOf(sym)
		if g == nil {
			fail("descriptor %s of %s not emitted", sym, e.desc)
			return nil, false
		}
		init := g.impl.Initializer()
		mset := types.NewMethodSet(e.typ)
		if init.OperandsCount() != 3 {
			if mset.Len() != 0 {
				fail("%s: descriptor has no method table but the method set has %d methods", e.desc, mset.Len())
				return nil, false
			}
			return nil, true
		}
		tbl := init.Operand(2)
		var ret []zzMethod
		for i := 0; i < tbl.OperandsCount(); i++ {
			m := tbl.Operand(i)
			ret = append(ret, zzMethod{zzStr(m.Operand(0)), zzGlobalName(m.Operand(1))})
		}
		return ret, true
	}
	ifaceMethods := func(e ent) ([]zzMethod, bool) {
		raw := e.typ.Underlying().(*types.Interface)
		if raw.NumMethods() == 0 {
			return nil, true
		}
		name, _ := prog.abi.TypeName(raw)
		g := pkg.VarOf(name + "$imethods")
		if g == nil {
			fail("imethods of %s (%s) not emitted", e.desc, name)
			return nil, false
		}
		tbl := g.impl.Initializer()
		var ret []zzMethod
		for i := 0; i < tbl.OperandsCount(); i++ {
			m := tbl.Operand(i)
			ret = append(ret, zzMethod{zzStr(m.Operand(0)), zzGlobalName(m.Operand(1))})
		}
		return ret, true
	}
	checkTable := func(desc string, tbl []zzMethod, ids []string) {
		if len(tbl) != len(ids) {
			fail("%s: %d entries in the emitted table, go/types has %d methods", desc, len(tbl), len(ids))
			return
		}
		sort.Strings(ids)
		for i := range tbl {
			if tbl[i].name != ids[i] {
				fail("%s: entry #%d is named %q, the method id is %q", desc, i, tbl[i].name, ids[i])
			}
			if i > 0 && tbl[i-1].name >= tbl[i].name {
				fail("%s: table not strictly sorted: %q then %q", desc, tbl[i-1].name, tbl[i].name)
			}
		}
	}
	vtabs := map[string][]zzMethod{}
	itabs := map[string][]zzMethod{}
	tables := 0
	for _, e := range concrete {
		tbl, ok := typeMethods(e)
		if !ok {
			continue
		}
		tables++
		vtabs[e.desc] = tbl
		mset := types.NewMethodSet(e.typ)
		var ids []string
		for i := 0; i < mset.Len(); i++ {
			ids = append(ids, mset.At(i).Obj().Id())
		}
		checkTable(e.desc, tbl, ids)
	}
	for _, e := range ifaces {
		tbl, ok := ifaceMethods(e)
		if !ok {
			continue
		}
		tables++
		itabs[e.desc] = tbl
		raw := e.typ.Underlying().(*types.Interface)
		var ids []string
		for i := 0; i < raw.NumMethods(); i++ {
			ids = append(ids, raw.Method(i).Id())
		}
		checkTable("interface "+e.desc, tbl, ids)
	}
	pairs := 0
	for _, v := range concrete {
		vm, ok := vtabs[v.desc]
		if !ok && types.NewMethodSet(v.typ).Len() > 0 {
			continue
		}
		for _, it := range ifaces {
			im, ok := itabs[it.desc]
			if !ok && it.typ.Underlying().(*types.Interface).NumMethods() > 0 {
				continue
			}
			pairs++
			// the criterion the verified run-time functions implement
			got := true
			for _, tm := range im {
				found := false
				for _, m := range vm {
					if m.name == tm.name && m.typ == tm.typ {
						found = true
					}
				}
				if !found {
					got = false
				}
			}
			want := types.Implements(v.typ, it.typ.Underlying().(*types.Interface))
			if got != want {
				fail("%s implements %s: the emitted tables say %v, Go says %v", v.desc, it.desc, got, want)
			}
		}
	}
	fmt.Printf("ZZBOUNDED methodtables types=%d pairs=%d failures=%d\n", tables, pairs, bad)
	if bad > 0 {
		t.Fail()
	}
}
