package shellparse

// BOUNDED stand-in for the round-trip clause of C17 (labelled bounded, never
// counted as proved): every argument list whose documented quoted form
// (each argument in double quotes with \ and " backslash-escaped, joined by one
// blank) has at most K runes over the alphabet below is split back by the real
// Parse into exactly the original list. Injected via go test -overlay.

import (
	"fmt"
	"os"
	"reflect"
	"strconv"
	"strings"
	"testing"
)

func zzQuote(args []string) string {
	var parts []string
	for _, a := range args {
		a = strings.ReplaceAll(a, `\`, `\\`)
		a = strings.ReplaceAll(a, `"`, `\"`)
		parts = append(parts, `"`+a+`"`)
	}
	return strings.Join(parts, " ")
}

// zzQuoteWhenNeeded leaves a word bare when it contains nothing that needs
// quoting (no blank, quote or backslash, not empty) - also a documented way.
func zzQuoteWhenNeeded(args []string) string {
	var parts []string
	for _, a := range args {
		if a != "" && !strings.ContainsAny(a, " \t\n\r\"'\\") {
			parts = append(parts, a)
			continue
		}
		parts = append(parts, zzQuote([]string{a}))
	}
	return strings.Join(parts, " ")
}

func TestZZVerifRoundTrip(t *testing.T) {
	K, _ := strconv.Atoi(os.Getenv("VERIF_C17_K"))
	if K == 0 {
		t.Skip("VERIF_C17_K not set")
	}
	alphabet := []rune{'a', ' ', '\t', '"', '\'', '\\', '-', '$', '\u0485', 'à', '\n'} // U+0485: UTF-8 D2 85, low byte 0x85 (a Latin-1 white space code); à: UTF-8 C3 A0
	checked, maxq := 0, 0
	var fail []string
	var gen func(args []string, cur []rune, budget int)
	check := func(args []string) {
		q := zzQuote(args)
		if n := len([]rune(q)); n > maxq {
			maxq = n
		}
		for _, q := range []string{q, zzQuoteWhenNeeded(args)} {
			got, err := Parse(q)
			checked++
			if err != nil || !reflect.DeepEqual(got, args) {
				if len(fail) < 5 {
					fail = append(fail, fmt.Sprintf("args=%q quoted=%q got=%q err=%v", args, q, got, err))
				}
			}
		}
	}
	// enumerate lists of arguments; the quoted form costs len(arg)+escapes+2 per argument plus separators
	gen = func(args []string, cur []rune, budget int) {
		// close the current argument
		done := append(append([]string{}, args...), string(cur))
		check(done)
		if budget >= 3 { // room for another (possibly empty) argument: blank + two quotes
			gen(done, nil, budget-3)
		}
		for _, r := range alphabet {
			cost := 1
			if r == '"' || r == '\\' {
				cost = 2
			}
			if budget >= cost {
				gen(args, append(append([]rune{}, cur...), r), budget-cost)
			}
		}
	}
	gen(nil, nil, K-2)
	fmt.Printf("ZZBOUNDED shellparse K=%d lists=%d maxquoted=%d failures=%d\n", K, checked, maxq, len(fail))
	for _, f := range fail {
		fmt.Println("ZZFAIL", f)
	}
	if len(fail) > 0 {
		t.Fail()
	}
}
