// Hand-written ENVIRONMENT (trusted; not part of the code under test) for running
// the real llgo runtime map code - map.go, alg.go, z_map.go, hash64.go and the
// helpers add / roundupsize / memclrHasPointers / memclrNoHeapPointers of
// stubs.go, all copied mechanically from /repo's working tree on every run -
// under the native Go toolchain: interface headers, allocation (zeroed, kept
// alive), typed memory copy, the random source, fatal hooks, C memset.
package pkg

import (
	"unsafe"

	"github.com/goplus/llgo/runtime/abi"
	"github.com/goplus/llgo/runtime/internal/runtime/math"
)

type _type = abi.Type
type interfacetype = abi.InterfaceType

type eface struct {
	_type *_type
	data  unsafe.Pointer
}

type iface struct {
	tab  *itab
	data unsafe.Pointer
}

type itab struct {
	inter *interfacetype
	_type *_type
	hash  uint32
	fun   [1]uintptr
}

type String struct {
	data unsafe.Pointer
	len  int
}

type errorString string

func (e errorString) RuntimeError() {}
func (e errorString) Error() string { return "runtime error: " + string(e) }

type plainError string

func (e plainError) Error() string { return string(e) }

func efaceOf(ep *any) *eface { return (*eface)(unsafe.Pointer(ep)) }

func isDirectIface(t *_type) bool { return t.Kind_&abi.KindDirectIface != 0 }

func noescape(p unsafe.Pointer) unsafe.Pointer {
	x := uintptr(p)
	return unsafe.Pointer(x ^ 0)
}

// Allocation: the map code stores pointers in memory the Go collector knows
// nothing about (buckets are untyped here), so every block is kept alive.
var keepAlive [][]uint64

func AllocZ(size uintptr) unsafe.Pointer {
	n := (size + 7) / 8
	if n == 0 {
		n = 1
	}
	blk := make([]uint64, n)
	keepAlive = append(keepAlive, blk)
	return unsafe.Pointer(&blk[0])
}

const maxAlloc = 1 << 48

func newobject(typ *_type) unsafe.Pointer { return AllocZ(typ.Size_) }

func newarray(typ *_type, n int) unsafe.Pointer {
	if n == 1 {
		return AllocZ(typ.Size_)
	}
	mem, overflow := math.MulUintptr(typ.Size_, uintptr(n))
	if overflow || mem > maxAlloc || n < 0 {
		panic(plainError("runtime: allocation size out of range"))
	}
	return AllocZ(mem)
}

func memmove(dst, src unsafe.Pointer, n uintptr) {
	if n == 0 {
		return
	}
	copy(unsafe.Slice((*byte)(dst), n), unsafe.Slice((*byte)(src), n))
}

func Typedmemmove(typ *_type, dst, src unsafe.Pointer) {
	if dst == src {
		return
	}
	memmove(dst, src, typ.Size_)
}

// stand-in for the clite package `c` as far as the extracted helpers use it
type cShim struct{}

var c cShim

func (cShim) Memset(p unsafe.Pointer, v int, n uintptr) unsafe.Pointer {
	if n > 0 {
		b := unsafe.Slice((*byte)(p), n)
		for i := range b {
			b[i] = byte(v)
		}
	}
	return p
}

var rngState uint64 = 0x9e3779b97f4a7c15

func fastrand() uint32 {
	rngState += 0xa0761d6478bd642f
	hi, lo := math.Mul64(rngState, rngState^0xe7037ed1a0b428db)
	return uint32(hi ^ lo)
}

func fastrand64() uint64 {
	n := uint64(fastrand())
	n += 0xa0761d6478bd642f
	hi, lo := math.Mul64(n, n^0xe7037ed1a0b428db)
	return hi ^ lo
}

func fatal(s string) { panic("fatal error: " + s) }
func throw(s string) { panic("fatal error: " + s) }

func atomicOr8(ptr *uint8, v uint8) uint8 {
	old := *ptr
	*ptr |= v
	return old
}
