// Differential test of the real llgo runtime map (map.go/alg.go/z_map.go/hash64.go)
// against the native Go map, for STRUCT keys and INTERFACE keys holding structs.
//
// The map type descriptors are built by hand from reflect types following the
// rules of the compiler side (ssa/abitype.go, ssa/abi/type.go, ssa/abi/map.go):
//   - Hasher = typehash(keyType, p, seed)                 (abiExtendedFields)
//   - Equal  = structequal/arrayequal closure, memequalN, strequal, ... (EqualName)
//   - TFlagRegularMemory as computed by Builder.IsRegularMemory
//   - flags / slot sizes / bucket size as MapTypeFlags / MapBucketType
//
// Every key handed to the llgo map lives in its own temporary whose padding
// bytes (and blank `_` fields) hold arbitrary garbage. That is exactly what an
// llgo-compiled program does: mapKeyPtr (ssa/datastruct.go) stores the key into
// an AllocU'd, i.e. NOT zeroed, temporary, and a struct store leaves padding
// untouched. Go's == ignores those bytes, therefore so must the map.
package pkg

import (
	"fmt"
	"math"
	"math/rand"
	"os"
	"reflect"
	"runtime/debug"
	"testing"
	"unsafe"

	"github.com/goplus/llgo/runtime/abi"
)

func TestMain(m *testing.M) {
	// buckets are untyped memory for the Go collector; keep everything alive
	debug.SetGCPercent(-1)
	os.Exit(m.Run())
}

// ---------------------------------------------------------------------------
// type descriptors

var typeCache = map[reflect.Type]*abi.Type{}

// This must match cmd/compile/internal/compare.IsRegularMemory
// (copy of the reference implementation in ssa/abi/abi_test.go).
func isRegularMemory(t reflect.Type) bool {
	switch t.Kind() {
	case reflect.Array:
		elem := t.Elem()
		if isRegularMemory(elem) {
			return true
		}
		return elem.Comparable() && t.Len() == 0
	case reflect.Int8, reflect.Int16, reflect.Int32, reflect.Int64, reflect.Int,
		reflect.Uint8, reflect.Uint16, reflect.Uint32, reflect.Uint64, reflect.Uint,
		reflect.Uintptr, reflect.Chan, reflect.Pointer, reflect.Bool, reflect.UnsafePointer:
		return true
	case reflect.Struct:
		num := t.NumField()
		switch num {
		case 0:
			return true
		case 1:
			field := t.Field(0)
			if field.Name == "_" {
				return false
			}
			return isRegularMemory(field.Type)
		default:
			for i := 0; i < num; i++ {
				field := t.Field(i)
				if field.Name == "_" || !isRegularMemory(field.Type) || isPaddedField(t, i) {
					return false
				}
			}
			return true
		}
	}
	return false
}

func isPaddedField(t reflect.Type, i int) bool {
	field := t.Field(i)
	if i+1 < t.NumField() {
		return field.Offset+field.Type.Size() != t.Field(i+1).Offset
	}
	return field.Offset+field.Type.Size() != t.Size()
}

func hasPointers(t reflect.Type) bool {
	switch t.Kind() {
	case reflect.String, reflect.Pointer, reflect.Interface, reflect.Slice, reflect.Map,
		reflect.Chan, reflect.Func, reflect.UnsafePointer:
		return true
	case reflect.Array:
		return t.Len() > 0 && hasPointers(t.Elem())
	case reflect.Struct:
		for i := 0; i < t.NumField(); i++ {
			if hasPointers(t.Field(i).Type) {
				return true
			}
		}
	}
	return false
}

func mkType(rt reflect.Type) *abi.Type {
	if t, ok := typeCache[rt]; ok {
		return t
	}
	common := abi.Type{
		Size_:       rt.Size(),
		Align_:      uint8(rt.Align()),
		FieldAlign_: uint8(rt.FieldAlign()),
		Kind_:       uint8(rt.Kind()), // abi.Kind and reflect.Kind use the same numbering
		Str_:        rt.String(),
	}
	if hasPointers(rt) {
		common.PtrBytes = rt.Size()
	}
	if isRegularMemory(rt) {
		common.TFlag |= abi.TFlagRegularMemory
	}
	var res *abi.Type
	switch rt.Kind() {
	case reflect.Bool, reflect.Int8, reflect.Uint8:
		common.Equal = memequal8
	case reflect.Int16, reflect.Uint16:
		common.Equal = memequal16
	case reflect.Int32, reflect.Uint32:
		common.Equal = memequal32
	case reflect.Int64, reflect.Uint64, reflect.Int, reflect.Uint, reflect.Uintptr:
		common.Equal = memequal64
	case reflect.Float32:
		common.Equal = f32equal
	case reflect.Float64:
		common.Equal = f64equal
	case reflect.String:
		common.Equal = strequal
	case reflect.Interface:
		if rt.NumMethod() != 0 {
			panic("only the empty interface is supported here")
		}
		it := &abi.InterfaceType{Type: common}
		it.Equal = nilinterequal
		res = &it.Type
	case reflect.Array:
		at := &abi.ArrayType{Type: common, Len: uintptr(rt.Len())}
		res = &at.Type
		typeCache[rt] = res
		at.Elem = mkType(rt.Elem())
		if rt.Elem().Size() == 0 {
			at.Equal = memequal0
		} else {
			at.Equal = func(p, q unsafe.Pointer) bool { return arrayequal(unsafe.Pointer(at), p, q) }
		}
	case reflect.Struct:
		st := &abi.StructType{Type: common}
		res = &st.Type
		typeCache[rt] = res
		for i := 0; i < rt.NumField(); i++ {
			f := rt.Field(i)
			st.Fields = append(st.Fields, abi.StructField{Name_: f.Name, Typ: mkType(f.Type), Offset: f.Offset})
		}
		if rt.NumField() == 0 {
			st.Equal = memequal0
		} else {
			st.Equal = func(p, q unsafe.Pointer) bool { return structequal(unsafe.Pointer(st), p, q) }
		}
	default:
		panic("unsupported kind " + rt.Kind().String())
	}
	if res == nil {
		c := common
		res = &c
	}
	typeCache[rt] = res
	return res
}

// ssa/abi/map.go IsReflexive / needkeyupdate / hashMightPanic on reflect types.
func isReflexive(t reflect.Type) bool {
	switch t.Kind() {
	case reflect.Float32, reflect.Float64, reflect.Complex64, reflect.Complex128, reflect.Interface:
		return false
	case reflect.Array:
		return isReflexive(t.Elem())
	case reflect.Struct:
		for i := 0; i < t.NumField(); i++ {
			if !isReflexive(t.Field(i).Type) {
				return false
			}
		}
	}
	return true
}

func needKeyUpdate(t reflect.Type) bool {
	switch t.Kind() {
	case reflect.Float32, reflect.Float64, reflect.Complex64, reflect.Complex128, reflect.Interface, reflect.String:
		return true
	case reflect.Array:
		return needKeyUpdate(t.Elem())
	case reflect.Struct:
		for i := 0; i < t.NumField(); i++ {
			if needKeyUpdate(t.Field(i).Type) {
				return true
			}
		}
	}
	return false
}

func hashMightPanic(t reflect.Type) bool {
	switch t.Kind() {
	case reflect.Interface:
		return true
	case reflect.Array:
		return hashMightPanic(t.Elem())
	case reflect.Struct:
		for i := 0; i < t.NumField(); i++ {
			if hashMightPanic(t.Field(i).Type) {
				return true
			}
		}
	}
	return false
}

func mkMapType(krt, vrt reflect.Type) *abi.MapType {
	key, elem := mkType(krt), mkType(vrt)
	mt := &abi.MapType{Key: key, Elem: elem}
	mt.Kind_ = uint8(abi.Map)
	mt.Size_ = 8
	mt.Str_ = "map[" + krt.String() + "]" + vrt.String()
	mt.Hasher = func(p unsafe.Pointer, h uintptr) uintptr { return typehash(key, p, h) }
	ks, vs := key.Size_, elem.Size_
	if ks > abi.MapMaxKeyBytes {
		mt.Flags |= 1
		ks = 8
	}
	if vs > abi.MapMaxElemBytes {
		mt.Flags |= 2
		vs = 8
	}
	if isReflexive(krt) {
		mt.Flags |= 4
	}
	if needKeyUpdate(krt) {
		mt.Flags |= 8
	}
	if hashMightPanic(krt) {
		mt.Flags |= 16
	}
	mt.KeySize, mt.ValueSize = uint8(ks), uint8(vs)
	// bucket: tophash [8]uint8; keys [8]K; elems [8]V; overflow pointer
	bsize := 8 + 8*ks + 8*vs + 8
	mt.BucketSize = uint16(bsize)
	b := &abi.Type{Size_: bsize, Kind_: uint8(abi.Struct), Align_: 8, Str_: "bucket"}
	if hasPointers(krt) || hasPointers(vrt) || mt.Flags&3 != 0 {
		b.PtrBytes = bsize
	}
	mt.Bucket = b
	return mt
}

// ---------------------------------------------------------------------------
// keys in temporaries with garbage in the bytes that == ignores

// ignoredBytes[i] reports whether byte i of a value of type rt takes no part in ==
// (padding, blank fields).
func ignoredBytes(rt reflect.Type) []bool {
	m := make([]bool, rt.Size())
	for i := range m {
		m[i] = true
	}
	var walk func(t reflect.Type, off uintptr)
	walk = func(t reflect.Type, off uintptr) {
		switch t.Kind() {
		case reflect.Struct:
			for i := 0; i < t.NumField(); i++ {
				if f := t.Field(i); f.Name != "_" {
					walk(f.Type, off+f.Offset)
				}
			}
		case reflect.Array:
			for i := 0; i < t.Len(); i++ {
				walk(t.Elem(), off+uintptr(i)*t.Elem().Size())
			}
		default:
			for i := uintptr(0); i < t.Size(); i++ {
				m[off+i] = false
			}
		}
	}
	walk(rt, 0)
	return m
}

// temp returns a pointer to a fresh copy of k. With dirty set, the bytes of the
// copy that do not take part in == are filled with random garbage, like the
// not-zeroed stack temporary llgo passes to MapAssign/MapAccess/MapDelete;
// otherwise they are zeroed.
func temp[K any](k K, ign []bool, dirty bool, rng *rand.Rand) unsafe.Pointer {
	p := new(K)
	*p = k
	b := unsafe.Slice((*byte)(unsafe.Pointer(p)), unsafe.Sizeof(k))
	for i := range b {
		if ign != nil && ign[i] {
			if dirty {
				b[i] = byte(rng.Intn(256))
			} else {
				b[i] = 0 // the Go struct copy above may have copied garbage, too
			}
		}
	}
	return unsafe.Pointer(p)
}

// ---------------------------------------------------------------------------
// differential driver: llgo map[K]int64 against native map[K]int64

func runDiff[K comparable](t *testing.T, gen func(i int) K, domain, nops int, dirty bool, seed int64) {
	t.Helper()
	var zk K
	krt := reflect.TypeOf(zk)
	mt := mkMapType(krt, reflect.TypeOf(int64(0)))
	ign := ignoredBytes(krt)
	rng := rand.New(rand.NewSource(seed))

	h := MakeMap(mt, 0)
	model := map[K]int64{}

	fail := func(step int, format string, args ...any) {
		t.Helper()
		fmt.Printf("ZZFAIL map %s (keys in temporaries with %s padding), seed %d, step %d: %s\n", mt.Str_, map[bool]string{true: "garbage", false: "zeroed"}[dirty], seed, step, fmt.Sprintf(format, args...))
		t.Fatalf("%s: step %d: %s", mt.Str_, step, fmt.Sprintf(format, args...))
	}
	for step := 0; step < nops; step++ {
		k := gen(rng.Intn(domain))
		switch op := rng.Intn(100); {
		case op < 45: // m[k] = v
			v := int64(step + 1)
			*(*int64)(MapAssign(mt, h, temp(k, ign, dirty, rng))) = v
			model[k] = v
		case op < 70: // v, ok := m[k]
			p, ok := MapAccess2(mt, h, temp(k, ign, dirty, rng))
			want, wok := model[k]
			var got int64
			if ok {
				got = *(*int64)(p)
			}
			if ok != wok || got != want {
				fail(step, "lookup %+v = (%d,%v), Go map gives (%d,%v)", k, got, ok, want, wok)
			}
		case op < 90: // delete(m, k)
			MapDelete(mt, h, temp(k, ign, dirty, rng))
			delete(model, k)
		case op < 99: // for k, v := range m
			seen := map[K]int{}
			it := NewMapIter(mt, h)
			for {
				ok, kp, vp := MapIterNext(it)
				if !ok {
					break
				}
				rk, rv := *(*K)(kp), *(*int64)(vp)
				seen[rk]++
				if want, wok := model[rk]; !wok || want != rv {
					fail(step, "range yields %+v:%d, Go map has (%d,%v)", rk, rv, want, wok)
				}
				if seen[rk] > 1 {
					fail(step, "range yields key %+v %d times", rk, seen[rk])
				}
			}
			if len(seen) != len(model) {
				fail(step, "range yields %d distinct keys, Go map has %d", len(seen), len(model))
			}
		default: // clear(m), rarely
			if rng.Intn(10) == 0 {
				MapClear(mt, h)
				for mk := range model {
					delete(model, mk)
				}
			}
		}
		if got := MapLen(h); got != len(model) {
			fail(step, "len = %d after operating on key %+v, Go map has %d", got, k, len(model))
		}
	}
}

// ---------------------------------------------------------------------------
// key types

// two plain fields with padding between them, then a string
type padKey struct {
	Tag  int8
	ID   int64
	Name string
}

// only plain fields, interior padding (not TFlagRegularMemory because of it)
type recKey struct {
	Kind uint8
	Off  uint32
	Len  uint16
	Ptr  uint64
}

// a float between plain fields, padding after the bool
type mixKey struct {
	On bool
	N  int32
	F  float64
	A  int16
	B  int64
}

// blank field in the middle of plain fields
type blankKey struct {
	A int32
	_ int32
	B int64
	S string
}

// no padding at all: plain memory (control)
type flatKey struct {
	X, Y int64
}

// no padding, but not plain memory because of the string (control)
type nameKey struct {
	ID   int64
	Name string
	Seq  int64
	Gen  int64
}

var names = []string{"", "a", "b", "alpha", "beta", "a-rather-longer-name-0123456789"}

func genPad(i int) padKey { return padKey{int8(i % 5), int64(i / 5), names[i%len(names)]} }
func genRec(i int) recKey {
	return recKey{uint8(i % 3), uint32(i / 3), uint16(i % 7), uint64(i) * 0x9e3779b97f4a7c15}
}
func genMix(i int) mixKey {
	return mixKey{i%2 == 0, int32(i / 2), float64(i%4) / 2, int16(i % 3), int64(i)}
}
func genBlank(i int) blankKey { return blankKey{A: int32(i % 4), B: int64(i / 4), S: names[i%len(names)]} }
func genFlat(i int) flatKey   { return flatKey{int64(i % 6), int64(i / 6)} }
func genName(i int) nameKey   { return nameKey{int64(i / 6), names[i%len(names)], int64(i % 3), int64(i)} }

const (
	nOps   = 6000
	domain = 300 // > 8 buckets of entries: crosses several growths, uses overflow buckets
)

// Controls: keys whose ignored bytes are all zero, and key types without padding.
func TestStructKeysCleanTemporaries(t *testing.T) {
	runDiff(t, genPad, domain, nOps, false, 1)
	runDiff(t, genRec, domain, nOps, false, 2)
	runDiff(t, genMix, domain, nOps, false, 3)
	runDiff(t, genBlank, domain, nOps, false, 4)
}

func TestStructKeysWithoutPadding(t *testing.T) {
	runDiff(t, genFlat, domain, nOps, true, 5)
	runDiff(t, genName, domain, nOps, true, 6)
}

// The llgo situation: key temporaries are not zeroed.
func TestStructKeyPaddingBeforeString(t *testing.T) { runDiff(t, genPad, domain, nOps, true, 7) }
func TestStructKeyInteriorPadding(t *testing.T)     { runDiff(t, genRec, domain, nOps, true, 8) }
func TestStructKeyFloatAndPadding(t *testing.T)     { runDiff(t, genMix, domain, nOps, true, 9) }
func TestStructKeyBlankField(t *testing.T)          { runDiff(t, genBlank, domain, nOps, true, 10) }

// Minimal deterministic scenario, map[recKey]int64:
//
//	m[k] = 1; m[k] = 2; len(m) == 1; m[k] == 2
//
// where the three uses of k are three temporaries with different padding.
func TestSameKeyTwice(t *testing.T) {
	mt := mkMapType(reflect.TypeOf(recKey{}), reflect.TypeOf(int64(0)))
	h := MakeMap(mt, 0)
	mk := func(fill byte) unsafe.Pointer {
		var buf [unsafe.Sizeof(recKey{})]byte
		for i := range buf {
			buf[i] = fill
		}
		k := (*recKey)(unsafe.Pointer(&buf))
		k.Kind, k.Off, k.Len, k.Ptr = 1, 2, 3, 4
		return unsafe.Pointer(k)
	}
	if a, b := *(*recKey)(mk(0x00)), *(*recKey)(mk(0xff)); a != b {
		t.Fatal("test bug: keys differ")
	}
	*(*int64)(MapAssign(mt, h, mk(0x00))) = 1
	*(*int64)(MapAssign(mt, h, mk(0xff))) = 2
	if n := MapLen(h); n != 1 {
		t.Errorf("m[k]=1; m[k]=2: len(m) = %d, want 1", n)
	}
	p, ok := MapAccess2(mt, h, mk(0x55))
	if !ok || *(*int64)(p) != 2 {
		t.Errorf("m[k] = (%v, %v), want (2, true)", *(*int64)(p), ok)
	}
	MapDelete(mt, h, mk(0xaa))
	if n := MapLen(h); n != 0 {
		t.Errorf("after delete(m, k): len(m) = %d, want 0", n)
	}
}

// map[any]int64 whose keys hold padKey / recKey / int64 dynamic values: the
// struct is hashed through nilinterhash -> typehash(dynamic type).
func TestInterfaceKeysHoldingStructs(t *testing.T) {
	anyRT := reflect.TypeOf((*any)(nil)).Elem()
	mt := mkMapType(anyRT, reflect.TypeOf(int64(0)))
	padT, recT, intT := mkType(reflect.TypeOf(padKey{})), mkType(reflect.TypeOf(recKey{})), mkType(reflect.TypeOf(int64(0)))
	padIgn, recIgn := ignoredBytes(reflect.TypeOf(padKey{})), ignoredBytes(reflect.TypeOf(recKey{}))
	rng := rand.New(rand.NewSource(11))

	// boxing as llgo does it for values that are not pointer-shaped: eface{type, pointer to a copy}
	box := func(v any) unsafe.Pointer {
		e := new(eface)
		switch v := v.(type) {
		case padKey:
			e._type, e.data = padT, temp(v, padIgn, true, rng)
		case recKey:
			e._type, e.data = recT, temp(v, recIgn, true, rng)
		case int64:
			e._type, e.data = intT, temp(v, nil, false, rng)
		}
		return unsafe.Pointer(e)
	}
	unbox := func(p unsafe.Pointer) any {
		e := (*eface)(p)
		switch e._type {
		case padT:
			return *(*padKey)(e.data)
		case recT:
			return *(*recKey)(e.data)
		case intT:
			return *(*int64)(e.data)
		}
		panic("unknown dynamic type")
	}
	gen := func(i int) any {
		switch i % 3 {
		case 0:
			return genPad(i / 3)
		case 1:
			return genRec(i / 3)
		}
		return int64(i / 3)
	}

	h := MakeMap(mt, 0)
	model := map[any]int64{}
	for step := 0; step < nOps; step++ {
		k := gen(rng.Intn(domain))
		switch op := rng.Intn(100); {
		case op < 50:
			*(*int64)(MapAssign(mt, h, box(k))) = int64(step + 1)
			model[k] = int64(step + 1)
		case op < 75:
			p, ok := MapAccess2(mt, h, box(k))
			want, wok := model[k]
			var got int64
			if ok {
				got = *(*int64)(p)
			}
			if ok != wok || got != want {
				t.Fatalf("step %d: lookup %#v = (%d,%v), Go map gives (%d,%v)", step, k, got, ok, want, wok)
			}
		case op < 92:
			MapDelete(mt, h, box(k))
			delete(model, k)
		default:
			seen := map[any]int{}
			it := NewMapIter(mt, h)
			for {
				ok, kp, vp := MapIterNext(it)
				if !ok {
					break
				}
				rk, rv := unbox(kp), *(*int64)(vp)
				seen[rk]++
				if want, wok := model[rk]; !wok || want != rv || seen[rk] > 1 {
					t.Fatalf("step %d: range yields %#v:%d (%d times), Go map has (%d,%v)", step, rk, rv, seen[rk], want, wok)
				}
			}
			if len(seen) != len(model) {
				t.Fatalf("step %d: range yields %d distinct keys, Go map has %d", step, len(seen), len(model))
			}
		}
		if got := MapLen(h); got != len(model) {
			t.Fatalf("step %d: len = %d after operating on key %#v, Go map has %d", step, got, k, len(model))
		}
	}
}


// map[float64]int64 with NaN keys (every insertion of a NaN creates a new entry, told
// apart here by its value), +0/-0 (one key) and ordinary floats, iterated while the
// table is at every stage of a doubling grow and WRITTEN during the loop (so that old
// buckets are evacuated behind and ahead of the iterator). Go spec: every entry present
// for the whole loop is produced exactly once, no entry twice, nothing that is not in
// the map; lookups of NaN fail; len counts every NaN entry.
func TestNaNKeysIterationDuringGrowth(t *testing.T) {
	mt := mkMapType(reflect.TypeOf(float64(0)), reflect.TypeOf(int64(0)))
	rng := rand.New(rand.NewSource(12))
	nan := math.NaN()
	key := func(f float64) unsafe.Pointer { p := new(float64); *p = f; return unsafe.Pointer(p) }
	for n := 1; n <= 140; n++ {
		for variant := 0; variant < 3; variant++ {
			h := MakeMap(mt, 0)
			live := map[int64]float64{} // value id -> key, for all entries
			next := int64(1)
			put := func(f float64) {
				if f == f {
					if p, ok := MapAccess2(mt, h, key(f)); ok {
						delete(live, *(*int64)(p))
					}
				}
				*(*int64)(MapAssign(mt, h, key(f))) = next
				live[next] = f
				next++
			}
			for i := 0; i < n; i++ {
				switch {
				case variant == 0 || i%3 != 0:
					put(nan)
				default:
					put(float64(i))
				}
			}
			put(0.0)
			put(math.Copysign(0, -1)) // same key as +0: replaces it
			if got := MapLen(h); got != len(live) {
				fmt.Printf("ZZFAIL map[float64]int64 with NaN keys, n=%d variant=%d: len = %d, want %d\n", n, variant, got, len(live))
				t.Fatalf("len = %d, want %d", got, len(live))
			}
			if _, ok := MapAccess2(mt, h, key(nan)); ok {
				fmt.Printf("ZZFAIL map[float64]int64, n=%d: lookup of NaN succeeded\n", n)
				t.Fatal("lookup of NaN succeeded")
			}
			atStart := map[int64]bool{}
			for id := range live {
				atStart[id] = true
			}
			seen := map[int64]int{}
			it := NewMapIter(mt, h)
			step := 0
			for {
				ok, kp, vp := MapIterNext(it)
				if !ok {
					break
				}
				id := *(*int64)(vp)
				k := *(*float64)(kp)
				seen[id]++
				want, present := live[id]
				if !present || (want == want && want != k) || (want != want && k == k) {
					fmt.Printf("ZZFAIL map[float64]int64 with NaN keys, n=%d variant=%d: range produced %v:%d which is not in the map\n", n, variant, k, id)
					t.Fatalf("range produced %v:%d which is not in the map", k, id)
				}
				if seen[id] > 1 {
					fmt.Printf("ZZFAIL map[float64]int64 with NaN keys, n=%d variant=%d: range produced entry %v:%d twice (write during the loop while the table grows)\n", n, variant, k, id)
					t.Fatalf("range produced entry %v:%d twice", k, id)
				}
				// a write in the loop body: each of these makes the map evacuate old buckets
				switch (step + variant) % 3 {
				case 0:
					MapDelete(mt, h, key(-12345.5)) // absent key
				case 1:
					if variant == 2 && rng.Intn(4) == 0 {
						put(nan) // a new entry: may or may not be produced
					} else {
						MapDelete(mt, h, key(-777.25))
					}
				case 2:
					// overwrite an existing ordinary key in place (same id kept for the oracle)
					if p, ok := MapAccess2(mt, h, key(0)); ok {
						id0 := *(*int64)(p)
						*(*int64)(MapAssign(mt, h, key(0))) = id0
					}
				}
				step++
			}
			for id := range atStart {
				if _, still := live[id]; still && seen[id] != 1 {
					fmt.Printf("ZZFAIL map[float64]int64 with NaN keys, n=%d variant=%d: entry %v:%d was present for the whole loop but produced %d times\n", n, variant, live[id], id, seen[id])
					t.Fatalf("entry %v:%d present for the whole loop, produced %d times", live[id], id, seen[id])
				}
			}
		}
	}
}


// TestZZVerifMapKeyKinds: entry point of the bounded check (BOUNDED stand-in,
// labelled bounded, never counted as proved): runs every differential scenario
// of this file as a subtest and reports the counts in the harness format.
func TestZZVerifMapKeyKinds(t *testing.T) {
	if os.Getenv("VERIF_C06") == "" {
		t.Skip("VERIF_C06 not set")
	}
	scen := []struct {
		name string
		f    func(*testing.T)
	}{
		{"StructKeysCleanTemporaries", TestStructKeysCleanTemporaries},
		{"StructKeysWithoutPadding", TestStructKeysWithoutPadding},
		{"StructKeyPaddingBeforeString", TestStructKeyPaddingBeforeString},
		{"StructKeyInteriorPadding", TestStructKeyInteriorPadding},
		{"StructKeyFloatAndPadding", TestStructKeyFloatAndPadding},
		{"StructKeyBlankField", TestStructKeyBlankField},
		{"SameKeyTwice", TestSameKeyTwice},
		{"InterfaceKeysHoldingStructs", TestInterfaceKeysHoldingStructs},
		{"NaNKeysIterationDuringGrowth", TestNaNKeysIterationDuringGrowth},
	}
	bad := 0
	for _, s := range scen {
		if !t.Run(s.name, s.f) {
			bad++
			fmt.Printf("ZZFAIL scenario %s failed (see the test log above)\n", s.name)
		}
	}
	fmt.Printf("ZZBOUNDED mapkeykinds K=%d lists=%d failures=%d\n", nOps, len(scen), bad)
}
