package mapx

// Hand-written ENVIRONMENT for the extracted map implementation (trusted; not
// part of the code under test): allocation (zeroed, as AllocZ), typed memory
// copy, the random source, the fatal-error hooks and the C library's memset.
// Everything in map.go, the operation/iteration wrappers of z_map.go AND the
// helpers add / roundupsize / memclrHasPointers / memclrNoHeapPointers of
// stubs.go is the REAL code, copied mechanically from /repo's working tree on
// every run (an earlier version of this file implemented the memclr helpers
// itself and thereby hid that the real ones were empty).

import (
	"unsafe"

	"github.com/goplus/llgo/runtime/abi"
)

type _type = abi.Type
type maptype = abi.MapType

type slice struct {
	array unsafe.Pointer
	len   int
	cap   int
}

type eface struct {
	_type *_type
	data  unsafe.Pointer
}

func efaceOf(ep *any) *eface { return (*eface)(unsafe.Pointer(ep)) }

type plainError string

func (e plainError) Error() string { return string(e) }
func (e plainError) RuntimeError() {}

const maxAlloc = 1 << 48

// allocations stay reachable for the whole test (the Go collector cannot see
// pointers stored in untyped memory)
var keepAlive [][]uint64

// allocBudget bounds what one operation sequence may allocate (a runaway
// loop that keeps allocating overflow buckets must end the sequence, not the machine)
var allocBudget int64

func allocZ(n uintptr) unsafe.Pointer {
	if n == 0 {
		n = 1
	}
	allocBudget -= int64(n)
	if allocBudget < 0 {
		panic("allocation budget of the test sequence exceeded (runaway allocation)")
	}
	b := make([]uint64, (n+7)/8)
	keepAlive = append(keepAlive, b)
	return unsafe.Pointer(&b[0])
}

func newobject(typ *_type) unsafe.Pointer { return allocZ(typ.Size_) }

func newarray(typ *_type, n int) unsafe.Pointer {
	if n < 0 || uintptr(n) > maxAlloc/(typ.Size_+1) {
		panic(plainError("runtime: allocation size out of range"))
	}
	return allocZ(typ.Size_ * uintptr(n))
}

// stand-in for the clite package `c` as far as the extracted helpers use it
type cShim struct{}

var c cShim

func (cShim) Memset(p unsafe.Pointer, v int, n uintptr) unsafe.Pointer {
	if n > 0 {
		b := unsafe.Slice((*byte)(p), n)
		for i := range b {
			b[i] = byte(v)
		}
	}
	return p
}

func memmove(dst, src unsafe.Pointer, n uintptr) {
	if n == 0 {
		return
	}
	copy(unsafe.Slice((*byte)(dst), n), unsafe.Slice((*byte)(src), n))
}

func typedmemmove(typ *_type, dst, src unsafe.Pointer) { memmove(dst, src, typ.Size_) }

func typedmemclr(typ *_type, p unsafe.Pointer) { memclr(p, typ.Size_) }

func memclr(p unsafe.Pointer, n uintptr) {
	if n == 0 {
		return
	}
	b := unsafe.Slice((*byte)(p), n)
	for i := range b {
		b[i] = 0
	}
}


// deterministic random source (seeded by the test)
var rngState uint64 = 0x9E3779B97F4A7C15

func fastrand() uint32 {
	rngState ^= rngState << 13
	rngState ^= rngState >> 7
	rngState ^= rngState << 17
	return uint32(rngState >> 16)
}

func fastrand64() uint64 { return uint64(fastrand())<<32 | uint64(fastrand()) }

func fatal(s string) { panic("fatal error: " + s) }
func throw(s string) { panic("fatal error: " + s) }

func atomicOr8(ptr *uint8, v uint8) uint8 {
	old := *ptr
	*ptr |= v
	return old
}
