package mapx

// BOUNDED stand-in for the finite-map refinement clause of C06 (labelled
// bounded, never counted as proved): the REAL map implementation (map.go and
// the iteration wrappers of z_map.go, copied mechanically from /repo's working
// tree, linked against the hand-written environment in shim.go) is driven with
// pseudo-random operation sequences and compared, after every operation, with
// Go's own map as the abstract finite map. Hash functions range from constant
// (every key collides) to well mixed, so overflow chains, same-size growth,
// doubling growth and iteration during growth all occur.
//
// Iteration oracle (Go spec, "For statements with range clause"): every entry
// present for the whole loop is produced exactly once; no key is produced
// twice; a produced entry is in the map, with the produced value, at the moment
// it is produced; entries removed before being reached are not produced.

import (
	"fmt"
	"math/rand"
	"os"
	"strconv"
	"testing"
	"time"
	"unsafe"

	"github.com/goplus/llgo/runtime/abi"
)

type mcfg struct {
	name    string
	hash    func(k uint64, seed uintptr) uintptr
	ptrFree bool // bucket type without pointers (overflow buckets kept alive through hmap.extra)
	domain  uint64
}

func mix64(x uint64) uint64 {
	x ^= x >> 30
	x *= 0xbf58476d1ce4e5b9
	x ^= x >> 27
	x *= 0x94d049bb133111eb
	x ^= x >> 31
	return x
}

func mkMapType(c mcfg) *abi.MapType {
	u64 := &abi.Type{Size_: 8, Align_: 8, FieldAlign_: 8, Kind_: uint8(abi.Uint64), Str_: "uint64",
		Equal: func(a, b unsafe.Pointer) bool { return *(*uint64)(a) == *(*uint64)(b) }}
	bucket := &abi.Type{Size_: 8 + 8*8 + 8*8 + 8, Align_: 8, FieldAlign_: 8, Kind_: uint8(abi.Struct), Str_: "bucket"}
	if !c.ptrFree {
		bucket.PtrBytes = bucket.Size_
	}
	mt := &abi.MapType{Key: u64, Elem: u64, Bucket: bucket, KeySize: 8, ValueSize: 8, BucketSize: uint16(bucket.Size_), Flags: 4 /* reflexive key */}
	mt.Type = abi.Type{Size_: 8, Align_: 8, FieldAlign_: 8, Kind_: uint8(abi.Map), Str_: "map[uint64]uint64"}
	h := c.hash
	mt.Hasher = func(p unsafe.Pointer, seed uintptr) uintptr { return h(*(*uint64)(p), seed) }
	return mt
}

type failure struct{ msg string }

func runSeq(c mcfg, seed int64, nops int) (err *failure, stats [4]int) {
	rngState = uint64(seed)*0x9E3779B97F4A7C15 | 1
	allocBudget = 256 << 20
	keepAlive = keepAlive[:0]
	rnd := rand.New(rand.NewSource(seed))
	mt := mkMapType(c)
	step := 0
	defer func() {
		if r := recover(); r != nil {
			err = &failure{fmt.Sprintf("op#%d: the implementation panicked: %v", step, r)}
		}
	}()
	hint := 0
	if rnd.Intn(3) == 0 {
		hint = rnd.Intn(int(c.domain) + 1)
	}
	h := MakeMap(mt, hint)
	model := map[uint64]uint64{}
	get := func(k uint64) (uint64, bool) {
		p, ok := MapAccess2(mt, h, unsafe.Pointer(&k))
		if !ok {
			return 0, false
		}
		return *(*uint64)(p), true
	}
	put := func(k, v uint64) {
		p := MapAssign(mt, h, unsafe.Pointer(&k))
		*(*uint64)(p) = v
		model[k] = v
	}
	del := func(k uint64) {
		MapDelete(mt, h, unsafe.Pointer(&k))
		delete(model, k)
	}
	checkKey := func(k uint64) *failure {
		v, ok := get(k)
		mv, mok := model[k]
		if ok != mok || v != mv {
			return &failure{fmt.Sprintf("op#%d: lookup of key %d gives (%d,%v), the finite map has (%d,%v)", step, k, v, ok, mv, mok)}
		}
		if p := MapAccess1(mt, h, unsafe.Pointer(&k)); *(*uint64)(p) != mv {
			return &failure{fmt.Sprintf("op#%d: one-result lookup of key %d gives %d, want %d", step, k, *(*uint64)(p), mv)}
		}
		return nil
	}
	checkAll := func() *failure {
		if MapLen(h) != len(model) {
			return &failure{fmt.Sprintf("op#%d: len is %d, the finite map has %d entries", step, MapLen(h), len(model))}
		}
		for k := uint64(0); k < c.domain; k++ {
			if f := checkKey(k); f != nil {
				return f
			}
		}
		return nil
	}
	fresh := c.domain // keys outside the lookup domain used for insertion bursts
	for step = 0; step < nops; step++ {
		k := uint64(rnd.Int63n(int64(c.domain)))
		switch r := rnd.Intn(100); {
		case r < 45:
			put(k, rnd.Uint64())
			if f := checkKey(k); f != nil {
				return f, stats
			}
		case r < 65:
			del(k)
			if f := checkKey(k); f != nil {
				return f, stats
			}
		case r < 85:
			if f := checkKey(k); f != nil {
				return f, stats
			}
		case r < 86:
			MapClear(mt, h)
			model = map[uint64]uint64{}
			stats[3]++
		case r < 88:
			// bulk load / bulk delete to move through growth phases quickly
			n := rnd.Intn(int(c.domain))
			for i := 0; i < n; i++ {
				kk := uint64(rnd.Int63n(int64(c.domain)))
				if r == 86 {
					put(kk, rnd.Uint64())
				} else {
					del(kk)
				}
			}
		default:
			// iteration, possibly with mutations by the loop body
			stats[0]++
			atStart := map[uint64]bool{}
			for kk := range model {
				atStart[kk] = true
			}
			removed := map[uint64]bool{}
			produced := map[uint64]bool{}
			mutate := rnd.Intn(3) // 0: none, 1: light, 2: insertion bursts
			if rnd.Intn(2) == 0 && h.B <= 5 {
				// start the loop in the middle of a grow: insert until a grow is in progress
				lim := 7*(1<<h.B) + 8
				for i := 0; i < lim && !h.growing(); i++ {
					fresh++
					put(fresh, rnd.Uint64())
					atStart[fresh] = true
				}
			}
			if h.growing() {
				stats[1]++
			}
			it := NewMapIter(mt, h)
			bursts := 0
			for n := 0; ; n++ {
				ok, kp, vp := MapIterNext(it)
				if !ok {
					break
				}
				kk, vv := *(*uint64)(kp), *(*uint64)(vp)
				if produced[kk] {
					return &failure{fmt.Sprintf("op#%d: range produced key %d twice", step, kk)}, stats
				}
				produced[kk] = true
				mv, mok := model[kk]
				if !mok {
					return &failure{fmt.Sprintf("op#%d: range produced key %d, which is not in the map (removed before being reached, or never inserted)", step, kk)}, stats
				}
				if mv != vv {
					return &failure{fmt.Sprintf("op#%d: range produced key %d with value %d, the map holds %d", step, kk, vv, mv)}, stats
				}
				if n > 4*int(c.domain)+4096 {
					return &failure{fmt.Sprintf("op#%d: range does not terminate (%d entries produced, map has %d, %d at loop start, mutation mode %d)", step, n, len(model), len(atStart), mutate)}, stats
				}
				switch mutate {
				case 1:
					if rnd.Intn(4) == 0 {
						d := uint64(rnd.Int63n(int64(c.domain)))
						del(d)
						removed[d] = true
						delete(produced, d) // an entry created again later is a new entry and may be produced
					}
					if rnd.Intn(4) == 0 {
						put(uint64(rnd.Int63n(int64(c.domain))), rnd.Uint64())
					}
				case 2:
					if bursts < 3 && rnd.Intn(3) == 0 {
						stats[2]++
						bursts++
						burst := rnd.Intn(3*len(atStart)/2 + 24)
						for i := 0; i < burst; i++ {
							fresh++
							put(fresh, rnd.Uint64())
						}
					}
					if rnd.Intn(8) == 0 {
						d := uint64(rnd.Int63n(int64(c.domain)))
						del(d)
						removed[d] = true
						delete(produced, d)
					}
				}
			}
			for kk := range atStart {
				if !removed[kk] && !produced[kk] {
					return &failure{fmt.Sprintf("op#%d: range never produced key %d, which was in the map for the whole loop (mutation mode %d)", step, kk, mutate)}, stats
				}
			}
			// drop the burst keys again so the domain stays small
			for kk := range model {
				if kk >= c.domain {
					del(kk)
				}
			}
		}
		if step%16 == 0 {
			if f := checkAll(); f != nil {
				return f, stats
			}
		}
	}
	return checkAll(), stats
}

func TestZZVerifMapRefinement(t *testing.T) {
	if os.Getenv("VERIF_C06") == "" {
		t.Skip("VERIF_C06 not set")
	}
	seeds, _ := strconv.Atoi(os.Getenv("VERIF_C06_SEEDS"))
	if seeds == 0 {
		seeds = 100
	}
	nops, _ := strconv.Atoi(os.Getenv("VERIF_C06_OPS"))
	if nops == 0 {
		nops = 400
	}
	base, _ := strconv.ParseInt(os.Getenv("VERIF_SEED"), 10, 64)
	hashes := []struct {
		name string
		f    func(k uint64, seed uintptr) uintptr
	}{
		{"constant", func(k uint64, seed uintptr) uintptr { return 0 }},
		{"low2bits", func(k uint64, seed uintptr) uintptr { return uintptr(k & 3) }},
		{"identity", func(k uint64, seed uintptr) uintptr { return uintptr(k) }},
		{"tophashonly", func(k uint64, seed uintptr) uintptr { return uintptr(k << 56) }},
		{"mixed", func(k uint64, seed uintptr) uintptr { return uintptr(mix64(k ^ uint64(seed))) }},
	}
	total, bad := 0, 0
	var st [4]int
	for _, hf := range hashes {
		for _, ptrFree := range []bool{false, true} {
			for _, dom := range []uint64{12, 70, 400} {
				if hf.name == "constant" && dom > 70 {
					continue // quadratic
				}
				c := mcfg{name: fmt.Sprintf("hash=%s,ptrfree=%v,domain=%d", hf.name, ptrFree, dom), hash: hf.f, ptrFree: ptrFree, domain: dom}
				for s := 0; s < seeds; s++ {
					total++
					seed := base*1000003 + int64(s) + 1
					type res struct {
						f     *failure
						stats [4]int
					}
					ch := make(chan res, 1)
					go func() {
						f, stats := runSeq(c, seed, nops)
						ch <- res{f, stats}
					}()
					var f *failure
					var stats [4]int
					select {
					case r := <-ch:
						f, stats = r.f, r.stats
					case <-time.After(20 * time.Second):
						// a map operation does not return (e.g. a cyclic overflow chain): the
						// stuck goroutine cannot be stopped, so report and end the run here
						bad++
						fmt.Printf("ZZFAIL cfg=%s seed=%d a map operation did not return within 20 s (sequence abandoned, run ended early)\n", c.name, seed)
						fmt.Printf("ZZSTATS iterations=%d started-while-growing=%d insertion-bursts=%d clears=%d\n", st[0], st[1], st[2], st[3])
						fmt.Printf("ZZBOUNDED maprefine K=%d lists=%d failures=%d\n", nops, total, bad)
						os.Exit(1)
					}
					for i := range st {
						st[i] += stats[i]
					}
					if f != nil {
						bad++
						if bad <= 12 {
							fmt.Printf("ZZFAIL cfg=%s seed=%d %s\n", c.name, seed, f.msg)
						}
					}
				}
			}
		}
	}
	fmt.Printf("ZZSTATS iterations=%d started-while-growing=%d insertion-bursts=%d clears=%d\n", st[0], st[1], st[2], st[3])
	fmt.Printf("ZZBOUNDED maprefine K=%d lists=%d failures=%d\n", nops, total, bad)
	if bad > 0 {
		t.Fail()
	}
}
