#!/bin/sh
# Build govc offline from files on disk.
set -e
cd "$(dirname "$0")"
. ./env.sh
cd govc
cp -f /repo/go.sum go.sum 2>/dev/null || true
$GO build -o ../bin/govc ./cmd/govc
