module govc

go 1.24

require golang.org/x/tools v0.36.0

require (
	golang.org/x/mod v0.27.0 // indirect
	golang.org/x/sync v0.16.0 // indirect
)
