package vc

import (
	"fmt"
	"go/types"
	"sort"
	"strings"
)

// Component-based heap for struct fields (Burstall-Bornat): a field f of a
// struct type S accessed through a typed pointer lives in its own array
//     F!S!f : object address -> value
// (multi-word fields - strings, slices, interfaces - in one array per word).
// Accesses through raw addresses use the width-partitioned arrays M8..M64.
// Assumption (listed in the evidence): the same memory is never accessed both
// as a struct field and through a raw pointer.

type FieldPtr struct {
	Base Term // address of the enclosing struct object
	S    *types.Struct
	Key  string // array-name prefix F!<type>
	Idx  int
	Addr Term // numeric address of the field
}

type fieldComp struct {
	Arr  string
	Sort Sort
	Name string // component name for StructVal fields
}

func structKey(t types.Type) string {
	if n, ok := t.(*types.Named); ok {
		return "F!" + mangle(n.Obj().Pkg().Name()+"_"+n.Obj().Name())
	}
	if a, ok := t.(*types.Alias); ok {
		return structKey(types.Unalias(a))
	}
	return "F!" + mangle(typeKey(t))
}

// fieldComps lists the arrays that hold field idx of struct S (key).
func (r *FnRun) fieldComps(key string, s *types.Struct, idx int) ([]fieldComp, bool) {
	f := s.Field(idx)
	base := key + "!" + mangle(f.Name())
	if srt, ok := r.E.scalarSort(f.Type()); ok {
		return []fieldComp{{base, srt, ""}}, true
	}
	switch u := f.Type().Underlying().(type) {
	case *types.Basic:
		if u.Info()&types.IsString != 0 {
			return []fieldComp{{base + ".data", BV(64, false), "data"}, {base + ".len", BV(64, true), "len"}}, true
		}
		if u.Info()&types.IsComplex != 0 {
			w := 64
			if u.Kind() == types.Complex64 {
				w = 32
			}
			return []fieldComp{{base + ".re", FPSort(w), "re"}, {base + ".im", FPSort(w), "im"}}, true
		}
	case *types.Slice:
		return []fieldComp{{base + ".data", BV(64, false), "data"}, {base + ".len", BV(64, true), "len"}, {base + ".cap", BV(64, true), "cap"}}, true
	case *types.Interface:
		return []fieldComp{{base + ".itab", BV(64, false), "itab"}, {base + ".idata", BV(64, false), "data"}}, true
	}
	return nil, false
}

func fieldArraySort(el Sort) Sort { return ArraySort(BV(PtrW, false), el) }

// memArrS returns the current version of a (possibly not yet used) array.
func (r *FnRun) memArrS(st *State, name string, el Sort) Term {
	if t, ok := st.mem[name]; ok {
		return t
	}
	root := r
	for root.parent != nil {
		root = root.parent
	}
	srt := fieldArraySort(el)
	vname := name + "_0"
	if st.epoch > 0 {
		// an unknown call has havocked the heap since entry: the array's
		// current contents are unrelated to its entry contents
		vname = fmt.Sprintf("%s_h%d", name, st.epoch)
	}
	if !root.lazyDeclared[vname] {
		if root.lazyDeclared == nil {
			root.lazyDeclared = map[string]bool{}
		}
		root.lazyDeclared[vname] = true
		root.LazyDecls = append(root.LazyDecls, LogItem{Kind: LDecl, Name: vname, Sort: srt})
	}
	t := Term{vname, srt}
	st.mem[name] = t
	if root.arrSorts == nil {
		root.arrSorts = map[string]Sort{}
	}
	root.arrSorts[name] = el
	return t
}

func (r *FnRun) arrElemSort(name string) Sort {
	root := r
	for root.parent != nil {
		root = root.parent
	}
	if s, ok := root.arrSorts[name]; ok {
		return s
	}
	return *memSort(name).Elem
}

// allArrays: every heap array known in any of the given states.
func allArrays(sts ...*State) []string {
	seen := map[string]bool{}
	for _, st := range sts {
		for k := range st.mem {
			seen[k] = true
		}
	}
	var out []string
	for k := range seen {
		out = append(out, k)
	}
	sort.Strings(out)
	return out
}

func (r *FnRun) arr(st *State, name string) Term {
	if t, ok := st.mem[name]; ok {
		return t
	}
	if strings.HasPrefix(name, "F!") {
		return r.memArrS(st, name, r.arrElemSort(name))
	}
	return st.memArr(name)
}

func (r *FnRun) loadField(st *State, fp *FieldPtr) Val {
	comps, ok := r.fieldComps(fp.Key, fp.S, fp.Idx)
	if !ok {
		// aggregate field (array / nested struct): by address
		return r.loadAt(st, fp.Addr, fp.S.Field(fp.Idx).Type())
	}
	get := func(c fieldComp) Term {
		raw := Select(r.memArrS(st, c.Arr, c.Sort), fp.Base)
		t := Term{raw.S, c.Sort}
		if c.Sort.K == KInt && !strings.Contains(raw.S, "!q") && !strings.Contains(raw.S, "q!") && !strings.Contains(raw.S, "a!") {
			if st.ghost["range:"+t.S] == nil {
				st.ghost["range:"+t.S] = true
				st.assume(InTypeRange(t), "word in memory is within its type's range")
			}
		}
		return t
	}
	if len(comps) == 1 && comps[0].Name == "" {
		return get(comps[0])
	}
	sv := &StructVal{T: fp.S.Field(fp.Idx).Type()}
	for _, c := range comps {
		sv.N = append(sv.N, c.Name)
		sv.F = append(sv.F, get(c))
	}
	r.assumeHeaderInv(st, sv)
	return sv
}

// assumeHeaderInv: a slice or string header read from well-typed Go memory has
// 0 <= len (and len <= cap): the representation invariant of the type.
func (r *FnRun) assumeHeaderInv(st *State, sv *StructVal) {
	ln, ok := sv.Field("len")
	if !ok {
		return
	}
	lt, ok := ln.(Term)
	if !ok || strings.Contains(lt.S, "q!") || strings.Contains(lt.S, "!q") || strings.Contains(lt.S, "a!") {
		return
	}
	key := "hdrinv:" + lt.S
	if st.ghost[key] != nil {
		return
	}
	st.ghost[key] = true
	st.assume(Le(zeroLike(lt), lt), "length of a slice/string header in memory is non-negative")
	if cp, ok := sv.Field("cap"); ok {
		if ct, ok := cp.(Term); ok {
			st.assume(Le(lt, ct), "len <= cap of a slice header in memory")
		}
	}
}

func (r *FnRun) storeField(st *State, fp *FieldPtr, v Val, init bool) {
	comps, ok := r.fieldComps(fp.Key, fp.S, fp.Idx)
	if !ok {
		r.storeAt(st, fp.Addr, fp.S.Field(fp.Idx).Type(), v, init)
		return
	}
	if !init {
		st.writes++
	}
	put := func(c fieldComp, t Term) {
		arr := r.memArrS(st, c.Arr, c.Sort)
		nw := Store(arr, fp.Base, Term{t.S, c.Sort})
		if len(nw.S) > 160 {
			a := st.declare(r.freshName(c.Arr), fieldArraySort(c.Sort))
			st.log = append(st.log, LogItem{Kind: LAssume, T: Ident(a, nw), Note: "def"})
			nw = a
		}
		st.mem[c.Arr] = nw
	}
	if len(comps) == 1 && comps[0].Name == "" {
		t, ok := v.(Term)
		if !ok {
			panic(unsupported(fmt.Sprintf("store of %T into scalar field", v)))
		}
		put(comps[0], t)
		return
	}
	sv, ok := v.(*StructVal)
	if !ok {
		if iv, isI := v.(*IfaceVal); isI {
			sv = r.ifaceWords(st, iv)
		} else {
			panic(unsupported(fmt.Sprintf("store of %T into composite field", v)))
		}
	}
	for i, c := range comps {
		put(c, sv.F[i].(Term))
	}
}

// ifaceWords gives the two-word representation of an interface value built
// by MakeInterface: a per-type descriptor constant and an opaque data word.
func (r *FnRun) ifaceWords(st *State, iv *IfaceVal) *StructVal {
	key := "itab:" + iv.Desc
	tab, ok := st.ghost[key].(Term)
	if !ok {
		tab = st.declare(r.freshName("itab_"+iv.Desc), BV(64, false))
		st.assume(Not(Eq(tab, BVInt(0, 64, false))), "type descriptor is non-nil")
		st.ghost[key] = tab
	}
	var data Term
	if t, isT := iv.V.(Term); isT && (t.Sort.K == KBV || t.Sort.K == KInt) && t.Sort.W == 64 {
		data = Term{t.S, BV(64, false)}
	} else {
		data = st.declare(r.freshName("idata"), BV(64, false))
	}
	return &StructVal{N: []string{"itab", "data"}, F: []Val{tab, data}}
}

// objectArrays: all (array, index) pairs making up the struct object of type
// t at address base (nested structs included).
type arrIdx struct {
	Arr  string
	Sort Sort
	Idx  Term
}

func (r *FnRun) objectArrays(t types.Type, base Term) []arrIdx {
	s, ok := t.Underlying().(*types.Struct)
	if !ok {
		return nil
	}
	key := structKey(t)
	var out []arrIdx
	for i := 0; i < s.NumFields(); i++ {
		if comps, ok := r.fieldComps(key, s, i); ok {
			for _, c := range comps {
				out = append(out, arrIdx{c.Arr, c.Sort, base})
			}
			continue
		}
		ft := s.Field(i).Type()
		if _, isS := ft.Underlying().(*types.Struct); isS {
			out = append(out, r.objectArrays(ft, Add(base, BVInt(r.fieldOffset(s, i), 64, false)))...)
		}
	}
	return out
}
