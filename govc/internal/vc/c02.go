package vc

import (
	"fmt"
	"math"
	"math/big"
	"os"
	"os/exec"
	"path/filepath"
	"regexp"
	"strconv"
	"strings"
)

// C02 (and the compiler side of C03): denotational contract of the lowering
// functions ssa.Builder.BinOp / UnOp / Convert.
//
//   contract (from the Go spec and the property statement), for every
//   compile-time case (operator, operand types) and ALL run-time operand values:
//     panics(emitted code)  <=>  goPanics(op, x, y)
//     otherwise: no LLVM undefined behaviour, result not poison, and
//                den(result) == goOp(op, x, y)
//
// The function under contract is a staged computation: its compile-time inputs
// (operator, types, constant operands) range over a finite set that is
// enumerated completely, its run-time inputs are LLVM parameters. Executing the
// REAL function on LLVM parameters is a symbolic execution with respect to the
// run-time operands; the emitted IR is the symbolic result. The obligations
// over that result are discharged by SMT for all operand values, with the LLVM
// Language Reference semantics of the ~20 instructions used as the trusted
// specification of the target language.

type irInstr struct {
	res    string   // "%5" or ""
	op     string   // add, icmp, select, call, ret, ...
	ty     string   // result / operand type (iN)
	args   []string // operand tokens
	pred   string   // icmp predicate
	toTy   string   // conversion target
	argTys []string
	raw    string
}

type irFunc struct {
	name   string
	params []string // types ("ptr" for every pointer type)
	ret    string
	body   []irInstr
	multi  bool // more than one basic block
	lastLabel int // index in body of the first instruction after the last label
	text   string
}

var (
	rePtrType = regexp.MustCompile(`(?:\[\d+ x [^\]]*\]|%"[^"]*"|%[\w.]+|i\d+|float|double)\*+`)
	reGEPConst = regexp.MustCompile(`getelementptr inbounds \([^()]*\)`)
	reDefine = regexp.MustCompile(`^define\s+(\S+)\s+@"?([^"(]+)"?\(([^)]*)\)`)
	reAssign = regexp.MustCompile(`^\s+(%[\w.]+) = (.*)$`)
)

var reIRLabel = regexp.MustCompile(`^[\w.$-]+:\s*(;.*)?$`)

func parseIR(text string) []*irFunc {
	var fns []*irFunc
	var cur *irFunc
	for _, rawLine := range strings.Split(text, "\n") {
		// complex numbers are { double, double } / { float, float }: one token for the parser
		line := strings.ReplaceAll(strings.ReplaceAll(rawLine, "{ double, double }", "c128"), "{ float, float }", "c64")
		// pointer types of any shape become the single token ptr (a 64-bit word)
		line = rePtrType.ReplaceAllString(line, "ptr")
		// constant-expression addresses (descriptor globals) are one opaque operand
		line = reGEPConst.ReplaceAllString(line, "@gepconst")
		if m := reDefine.FindStringSubmatch(line); m != nil {
			cur = &irFunc{name: m[2], ret: m[1], text: strings.Replace(rawLine, " #0 {", " {", 1) + "\n"}
			for _, p := range strings.Split(m[3], ",") {
				p = strings.TrimSpace(p)
				if p == "" {
					continue
				}
				cur.params = append(cur.params, strings.Fields(p)[0])
			}
			fns = append(fns, cur)
			continue
		}
		if cur == nil {
			continue
		}
		if strings.HasPrefix(line, "}") {
			cur.text += "}\n"
			if strings.HasSuffix(cur.name, "__again") {
				// the operation emitted twice in blocks that do not dominate each other:
				// the LAST block is judged on its own (it uses only the parameters)
				cur.body = cur.body[cur.lastLabel:]
				cur.multi = false
				for _, in := range cur.body {
					switch in.op {
					case "br", "phi", "switch", "unreachable":
						cur.multi = true
					}
				}
			}
			cur = nil
			continue
		}
		cur.text += rawLine + "\n"
		t := strings.TrimSpace(line)
		if t == "" || strings.HasPrefix(t, ";") {
			continue
		}
		if strings.HasSuffix(t, ":") || reIRLabel.MatchString(t) {
			if len(cur.body) > 0 {
				cur.multi = true
			}
			cur.lastLabel = len(cur.body)
			continue
		}
		ins := irInstr{raw: t}
		rest := t
		if m := reAssign.FindStringSubmatch(line); m != nil {
			ins.res = m[1]
			rest = m[2]
		}
		f := strings.Fields(strings.ReplaceAll(rest, ",", " "))
		ins.op = f[0]
		switch ins.op {
		case "add", "sub", "mul", "sdiv", "udiv", "srem", "urem", "shl", "lshr", "ashr", "and", "or", "xor":
			i := 1
			for f[i] == "nsw" || f[i] == "nuw" || f[i] == "exact" {
				ins.pred += f[i] + " "
				i++
			}
			ins.ty = f[i]
			ins.args = f[i+1:]
		case "fadd", "fsub", "fmul", "fdiv", "frem", "fneg":
			i := 1
			for irFPWidth(f[i]) == 0 && i < len(f)-1 {
				ins.pred += f[i] + " " // fast-math flags
				i++
			}
			ins.ty = f[i]
			ins.args = f[i+1:]
		case "fcmp":
			i := 1
			for i < len(f)-3 && irFPWidth(f[i+1]) == 0 {
				i++ // fast-math flags before the predicate
			}
			ins.pred = f[i]
			ins.ty = f[i+1]
			ins.args = f[i+2:]
		case "icmp":
			ins.pred = f[1]
			ins.ty = f[2]
			ins.args = f[3:]
		case "select":
			// select i1 %c, iN a, iN b
			ins.ty = f[3]
			ins.args = []string{f[2], f[4], f[6]}
		case "trunc", "zext", "sext", "sitofp", "uitofp", "fptosi", "fptoui", "fpext", "fptrunc":
			// trunc iN %x to iM
			ins.ty = f[1]
			ins.args = []string{f[2]}
			ins.toTy = f[4]
		case "call":
			// call <ret> @"name"(ty a, ty b, ...)
			i := strings.Index(rest, "@")
			j := strings.Index(rest[i:], "(") + i
			ins.pred = strings.Trim(rest[i+1:j], `"`)
			inner := rest[j+1 : strings.LastIndex(rest, ")")]
			for _, a := range strings.Split(inner, ",") {
				fa := strings.Fields(a)
				if len(fa) >= 2 {
					ins.args = append(ins.args, fa[len(fa)-1])
					ins.argTys = append(ins.argTys, fa[0])
					ins.ty = fa[0]
				}
			}
		case "ret":
			ins.ty = f[1]
			if len(f) > 2 {
				ins.args = []string{f[2]}
			}
		case "extractvalue":
			// extractvalue <aggregate type> %x, k   (type may contain spaces/quotes)
			ins.args = []string{f[len(f)-2], f[len(f)-1]}
		case "insertvalue":
			// insertvalue <agg type> <base>, <elt type> <value>, k
			if len(f) == 6 && irAggWidth(f[1]) > 0 {
				ins.ty = f[1]
				ins.args = []string{f[2], f[4], f[5]}
			}
		case "getelementptr", "load", "alloca", "store", "bitcast", "ptrtoint", "inttoptr":
			ins.ty = ""
			if ins.op == "load" && len(f) > 1 {
				ins.ty = f[1]
			}
		case "br", "phi", "switch", "unreachable":
			cur.multi = true
		}
		cur.body = append(cur.body, ins)
	}
	return fns
}

func irWidth(ty string) int {
	if ty == "ptr" {
		return 64
	}
	if strings.HasPrefix(ty, "i") {
		n, err := strconv.Atoi(ty[1:])
		if err == nil {
			return n
		}
	}
	return 0
}

type irVal struct {
	t      string // SMT term (bit-vector of width w; i1 is (_ BitVec 1); FloatingPoint when fp)
	w      int
	poison string // SMT Bool term
	fp     bool
	agg    []irVal // complex number: {re, im}
}

// irAggWidth: component width of a complex aggregate token (see parseIR), else 0.
func irAggWidth(ty string) int {
	switch ty {
	case "c128":
		return 64
	case "c64":
		return 32
	}
	return 0
}

// irFPWidth: 32 for float, 64 for double, else 0.
func irFPWidth(ty string) int {
	switch ty {
	case "float":
		return 32
	case "double":
		return 64
	}
	return 0
}

func fpSortS(w int) string {
	if w == 32 {
		return "(_ FloatingPoint 8 24)"
	}
	return "(_ FloatingPoint 11 53)"
}

func fpToFP(w int) string {
	if w == 32 {
		return "(_ to_fp 8 24)"
	}
	return "(_ to_fp 11 53)"
}

// fpConstBits renders an IEEE bit pattern as an FP term of width w.
func fpConstBits(bits uint64, w int) string {
	if w == 32 {
		return fmt.Sprintf("((_ to_fp 8 24) (_ bv%d 32))", uint32(bits))
	}
	return fmt.Sprintf("((_ to_fp 11 53) (_ bv%d 64))", bits)
}

// fpPow2 is 2^k as an FP term of width w (exactly representable for |k| <= 64).
func fpPow2(k int, w int, neg bool) string {
	f := math.Ldexp(1, k)
	if neg {
		f = -f
	}
	if w == 32 {
		return fpConstBits(uint64(math.Float32bits(float32(f))), 32)
	}
	return fpConstBits(math.Float64bits(f), 64)
}

// fpIntInRange: truncating x (FP of width fw) toward zero gives an integer representable in iw bits.
func fpIntInRange(x string, fw, iw int, signed bool) string {
	r := "(fp.roundToIntegral RTZ " + x + ")"
	if signed {
		return "(and (not (fp.isNaN " + x + ")) (not (fp.isInfinite " + x + ")) (fp.geq " + r + " " + fpPow2(iw-1, fw, true) + ") (fp.lt " + r + " " + fpPow2(iw-1, fw, false) + "))"
	}
	return "(and (not (fp.isNaN " + x + ")) (not (fp.isInfinite " + x + ")) (fp.geq " + r + " " + fpConstBits(0, fw) + ") (fp.lt " + r + " " + fpPow2(iw, fw, false) + "))"
}

func (e *irEval) fpOperand(tok string, w int) irVal {
	if strings.HasPrefix(tok, "%") {
		v, ok := e.vals[tok]
		if !ok {
			e.err = "unknown value " + tok
			return irVal{t: fpConstBits(0, w), w: w, poison: "false", fp: true}
		}
		return v
	}
	if tok == "poison" || tok == "undef" {
		return irVal{t: fpConstBits(0, w), w: w, poison: "true", fp: true}
	}
	var f float64
	if strings.HasPrefix(tok, "0x") {
		// LLVM prints float and double constants as the hexadecimal bits of the DOUBLE value
		b, err := strconv.ParseUint(tok[2:], 16, 64)
		if err != nil {
			e.err = "unsupported float constant " + tok
		}
		f = math.Float64frombits(b)
	} else {
		var err error
		f, err = strconv.ParseFloat(tok, 64)
		if err != nil {
			e.err = "unsupported float constant " + tok
		}
	}
	if w == 32 {
		return irVal{t: fpConstBits(uint64(math.Float32bits(float32(f))), 32), w: 32, poison: "false", fp: true}
	}
	return irVal{t: fpConstBits(math.Float64bits(f), 64), w: 64, poison: "false", fp: true}
}

type irCall struct {
	name string
	args []irVal
	tys  []string
}

type irEval struct {
	calls []irCall
	decls []string
	vals  map[string]irVal
	ub    []string // conditions under which executing the code is undefined behaviour (guarded by "not yet panicked")
	panic map[string][]string
	alive string // condition: no Assert call has fired so far
	err   string
	useUF bool
}

func bvLit(v *big.Int, w int) string {
	m := new(big.Int).Lsh(big.NewInt(1), uint(w))
	x := new(big.Int).Mod(v, m)
	return fmt.Sprintf("(_ bv%s %d)", x.String(), w)
}

func (e *irEval) operand(tok string, w int) irVal {
	if strings.HasPrefix(tok, "%") {
		v, ok := e.vals[tok]
		if !ok {
			e.err = "unknown value " + tok
			return irVal{t: bvLit(big.NewInt(0), w), w: w, poison: "false"}
		}
		return v
	}
	switch tok {
	case "true":
		return irVal{t: "#b1", w: 1, poison: "false"}
	case "false":
		return irVal{t: "#b0", w: 1, poison: "false"}
	case "poison", "undef":
		return irVal{t: bvLit(big.NewInt(0), w), w: w, poison: "true"}
	case "null":
		return irVal{t: bvLit(big.NewInt(0), w), w: w, poison: "false"}
	}
	n, ok := new(big.Int).SetString(tok, 10)
	if !ok {
		e.err = "unsupported operand " + tok
		n = big.NewInt(0)
	}
	return irVal{t: bvLit(n, w), w: w, poison: "false"}
}

func orS(a ...string) string {
	var out []string
	for _, x := range a {
		if x == "false" {
			continue
		}
		if x == "true" {
			return "true"
		}
		out = append(out, x)
	}
	switch len(out) {
	case 0:
		return "false"
	case 1:
		return out[0]
	}
	return "(or " + strings.Join(out, " ") + ")"
}

func andS(a ...string) string {
	var out []string
	for _, x := range a {
		if x == "true" {
			continue
		}
		if x == "false" {
			return "false"
		}
		out = append(out, x)
	}
	switch len(out) {
	case 0:
		return "true"
	case 1:
		return out[0]
	}
	return "(and " + strings.Join(out, " ") + ")"
}

func (e *irEval) divOp(op string, w int, a, b string) string {
	if e.useUF {
		return fmt.Sprintf("(uf_%s%d %s %s)", op, w, a, b)
	}
	return fmt.Sprintf("(bv%s %s %s)", op, a, b)
}

// eval interprets a straight-line IR function (LLVM LangRef semantics).
func (e *irEval) eval(fn *irFunc) (ret irVal) {
	for _, ins := range fn.body {
		w := irWidth(ins.ty)
		switch ins.op {
		case "add", "sub", "mul", "and", "or", "xor", "shl", "lshr", "ashr", "sdiv", "udiv", "srem", "urem":
			a, b := e.operand(ins.args[0], w), e.operand(ins.args[1], w)
			p := orS(a.poison, b.poison)
			var t string
			wl := bvLit(big.NewInt(int64(w)), w)
			switch ins.op {
			case "add", "sub", "mul", "and", "or", "xor":
				t = fmt.Sprintf("(bv%s %s %s)", ins.op, a.t, b.t)
				if strings.Contains(ins.pred, "nsw") || strings.Contains(ins.pred, "nuw") {
					e.err = "nsw/nuw flags not modelled"
				}
			case "shl", "lshr", "ashr":
				t = fmt.Sprintf("(bv%s %s %s)", ins.op, a.t, b.t)
				// LangRef: if op2 is (statically or dynamically) equal to or larger than the number of bits in op1, poison
				p = orS(p, fmt.Sprintf("(bvuge %s %s)", b.t, wl))
				if ins.pred != "" {
					e.err = "exact/nsw flags not modelled"
				}
			case "sdiv", "srem":
				t = e.divOp(ins.op, w, a.t, b.t)
				minInt := bvLit(new(big.Int).Lsh(big.NewInt(1), uint(w-1)), w)
				allOnes := bvLit(big.NewInt(-1), w)
				// LangRef: division by zero is undefined behaviour; overflow (minInt / -1) is undefined behaviour
				e.ub = append(e.ub, andS(e.alive, orS(fmt.Sprintf("(= %s %s)", b.t, bvLit(big.NewInt(0), w)), fmt.Sprintf("(and (= %s %s) (= %s %s))", a.t, minInt, b.t, allOnes), b.poison)))
			case "udiv", "urem":
				t = e.divOp(ins.op, w, a.t, b.t)
				e.ub = append(e.ub, andS(e.alive, orS(fmt.Sprintf("(= %s %s)", b.t, bvLit(big.NewInt(0), w)), b.poison)))
			}
			e.vals[ins.res] = irVal{t: t, w: w, poison: p}
		case "fadd", "fsub", "fmul", "fdiv", "fneg":
			fw := irFPWidth(ins.ty)
			if fw == 0 || strings.TrimSpace(ins.pred) != "" {
				e.err = "unsupported floating-point instruction: " + ins.raw
				continue
			}
			a := e.fpOperand(ins.args[0], fw)
			if ins.op == "fneg" {
				e.vals[ins.res] = irVal{t: "(fp.neg " + a.t + ")", w: fw, poison: a.poison, fp: true}
				continue
			}
			b := e.fpOperand(ins.args[1], fw)
			// LangRef: IEEE-754 semantics in the default floating-point environment (round to nearest even)
			e.vals[ins.res] = irVal{t: "(fp." + ins.op[1:] + " RNE " + a.t + " " + b.t + ")", w: fw, poison: orS(a.poison, b.poison), fp: true}
		case "fcmp":
			fw := irFPWidth(ins.ty)
			a, b := e.fpOperand(ins.args[0], fw), e.fpOperand(ins.args[1], fw)
			uno := "(or (fp.isNaN " + a.t + ") (fp.isNaN " + b.t + "))"
			rel := map[string]string{"eq": "fp.eq", "gt": "fp.gt", "ge": "fp.geq", "lt": "fp.lt", "le": "fp.leq"}
			var c string
			switch {
			case ins.pred == "true" || ins.pred == "false":
				c = ins.pred
			case ins.pred == "ord":
				c = "(not " + uno + ")"
			case ins.pred == "uno":
				c = uno
			case ins.pred == "one":
				c = "(and (not " + uno + ") (not (fp.eq " + a.t + " " + b.t + ")))"
			case ins.pred == "une":
				c = "(or " + uno + " (not (fp.eq " + a.t + " " + b.t + ")))"
			case len(ins.pred) == 3 && ins.pred[0] == 'o' && rel[ins.pred[1:]] != "":
				c = "(" + rel[ins.pred[1:]] + " " + a.t + " " + b.t + ")" // false on NaN by IEEE
			case len(ins.pred) == 3 && ins.pred[0] == 'u' && rel[ins.pred[1:]] != "":
				c = "(or " + uno + " (" + rel[ins.pred[1:]] + " " + a.t + " " + b.t + "))"
			default:
				e.err = "fcmp predicate " + ins.pred
				c = "false"
			}
			e.vals[ins.res] = irVal{t: "(ite " + c + " #b1 #b0)", w: 1, poison: orS(a.poison, b.poison)}
		case "sitofp", "uitofp":
			a := e.operand(ins.args[0], w)
			fw := irFPWidth(ins.toTy)
			op := fpToFP(fw)
			if ins.op == "uitofp" {
				op = strings.Replace(op, "to_fp", "to_fp_unsigned", 1)
			}
			e.vals[ins.res] = irVal{t: "(" + op + " RNE " + a.t + ")", w: fw, poison: a.poison, fp: true}
		case "fptosi", "fptoui":
			fw := irFPWidth(ins.ty)
			a := e.fpOperand(ins.args[0], fw)
			tw := irWidth(ins.toTy)
			op := "fp.to_sbv"
			if ins.op == "fptoui" {
				op = "fp.to_ubv"
			}
			// LangRef: rounds toward zero; if the value cannot fit in the result type, the result is poison
			e.vals[ins.res] = irVal{t: fmt.Sprintf("((_ %s %d) RTZ %s)", op, tw, a.t), w: tw,
				poison: orS(a.poison, "(not "+fpIntInRange(a.t, fw, tw, ins.op == "fptosi")+")")}
		case "fpext", "fptrunc":
			fw := irFPWidth(ins.ty)
			a := e.fpOperand(ins.args[0], fw)
			tw := irFPWidth(ins.toTy)
			e.vals[ins.res] = irVal{t: "(" + fpToFP(tw) + " RNE " + a.t + ")", w: tw, poison: a.poison, fp: true}
		case "icmp":
			a, b := e.operand(ins.args[0], w), e.operand(ins.args[1], w)
			var c string
			switch ins.pred {
			case "eq":
				c = fmt.Sprintf("(= %s %s)", a.t, b.t)
			case "ne":
				c = fmt.Sprintf("(not (= %s %s))", a.t, b.t)
			case "ugt", "uge", "ult", "ule", "sgt", "sge", "slt", "sle":
				c = fmt.Sprintf("(bv%s %s %s)", ins.pred, a.t, b.t)
			default:
				e.err = "icmp predicate " + ins.pred
				c = "false"
			}
			e.vals[ins.res] = irVal{t: "(ite " + c + " #b1 #b0)", w: 1, poison: orS(a.poison, b.poison)}
		case "select":
			c := e.operand(ins.args[0], 1)
			var a, b irVal
			isFP := false
			if fw := irFPWidth(ins.ty); fw > 0 {
				a, b, w, isFP = e.fpOperand(ins.args[1], fw), e.fpOperand(ins.args[2], fw), fw, true
			} else {
				a, b = e.operand(ins.args[1], w), e.operand(ins.args[2], w)
			}
			cond := "(= " + c.t + " #b1)"
			// LangRef: poison if the condition is poison, otherwise the poison-ness of the selected operand
			p := orS(c.poison, "(ite "+cond+" "+a.poison+" "+b.poison+")")
			e.vals[ins.res] = irVal{t: "(ite " + cond + " " + a.t + " " + b.t + ")", w: w, poison: p, fp: isFP}
		case "trunc", "zext", "sext":
			a := e.operand(ins.args[0], w)
			tw := irWidth(ins.toTy)
			var t string
			switch ins.op {
			case "trunc":
				t = fmt.Sprintf("((_ extract %d 0) %s)", tw-1, a.t)
			case "zext":
				t = fmt.Sprintf("((_ zero_extend %d) %s)", tw-w, a.t)
			case "sext":
				t = fmt.Sprintf("((_ sign_extend %d) %s)", tw-w, a.t)
			}
			e.vals[ins.res] = irVal{t: t, w: tw, poison: a.poison}
		case "call":
			kind := ins.pred[strings.LastIndex(ins.pred, ".")+1:]
			if kind == "Complex128Div" && len(ins.args) == 2 && ins.res != "" {
				// the run-time function (verified separately against c128div_re/im): an
				// uninterpreted pair of functions of the four components
				x, okx := e.vals[ins.args[0]]
				y, oky := e.vals[ins.args[1]]
				if !okx || !oky || x.agg == nil || y.agg == nil {
					e.err = "Complex128Div on unknown operands"
					continue
				}
				argS := x.agg[0].t + " " + x.agg[1].t + " " + y.agg[0].t + " " + y.agg[1].t
				p := orS(x.agg[0].poison, x.agg[1].poison, y.agg[0].poison, y.agg[1].poison)
				e.ub = append(e.ub, andS(e.alive, p)) // passing poison to a call
				e.vals[ins.res] = irVal{w: 64, agg: []irVal{
					{t: "(cdiv_re " + argS + ")", w: 64, poison: "false", fp: true},
					{t: "(cdiv_im " + argS + ")", w: 64, poison: "false", fp: true}}}
				continue
			}
			if !strings.HasPrefix(kind, "Assert") {
				// any other call: recorded with its integer operands; result opaque
				c := irCall{name: kind}
				for i, a := range ins.args {
					aw := irWidth(ins.argTys[i])
					c.tys = append(c.tys, ins.argTys[i])
					if ins.argTys[i] == "ptr" {
						if v, ok := e.vals[a]; ok {
							c.args = append(c.args, v)
						} else {
							c.args = append(c.args, irVal{t: a}) // constant expression / global: opaque
						}
						continue
					}
					if aw > 0 {
						c.args = append(c.args, e.operand(a, aw))
					} else {
						c.args = append(c.args, irVal{t: a})
					}
				}
				e.calls = append(e.calls, c)
				continue
			}
			if len(ins.args) != 1 {
				e.err = "unsupported call " + ins.pred
				continue
			}
			c := e.operand(ins.args[0], 1)
			fire := "(= " + c.t + " #b1)"
			// passing poison to a call is undefined behaviour in the callee's branch
			e.ub = append(e.ub, andS(e.alive, c.poison))
			e.panic[kind] = append(e.panic[kind], andS(e.alive, fire))
			e.alive = andS(e.alive, "(not "+fire+")")
		case "extractvalue":
			// field k of an aggregate parameter: a symbolic constant; runtime.Slice is
			// {ptr, len, cap}, runtime.String {ptr, len}: fields 1 and 2 are 64-bit ints
			if v, ok := e.vals[ins.args[0]]; ok && v.agg != nil {
				k, _ := strconv.Atoi(ins.args[1])
				if k < 0 || k >= len(v.agg) {
					e.err = "extractvalue index out of range"
					continue
				}
				e.vals[ins.res] = v.agg[k]
				continue
			}
			if ins.args[1] != "0" {
				name := "ev_" + strings.TrimPrefix(ins.args[0], "%") + "_" + ins.args[1]
				e.decls = append(e.decls, fmt.Sprintf("(declare-const %s (_ BitVec 64))\n(assert (bvsge %s (_ bv0 64)))\n", name, name))
				e.vals[ins.res] = irVal{t: name, w: 64, poison: "false"}
			}
		case "insertvalue":
			if fw := irAggWidth(ins.ty); fw > 0 && len(ins.args) == 3 {
				var base []irVal
				if ins.args[0] == "undef" || ins.args[0] == "poison" {
					// components of undef must not be used before they are set
					base = []irVal{{t: fpConstBits(0, fw), w: fw, poison: "true", fp: true}, {t: fpConstBits(0, fw), w: fw, poison: "true", fp: true}}
				} else if v, ok := e.vals[ins.args[0]]; ok && v.agg != nil {
					base = append([]irVal{}, v.agg...)
				} else {
					e.err = "insertvalue into unknown aggregate"
					continue
				}
				k, _ := strconv.Atoi(ins.args[2])
				if k < 0 || k > 1 {
					e.err = "insertvalue index out of range"
					continue
				}
				base[k] = e.fpOperand(ins.args[1], fw)
				e.vals[ins.res] = irVal{agg: base, w: fw}
			}
		case "getelementptr", "alloca", "store", "bitcast", "ptrtoint", "inttoptr":
			// memory / pointer instructions after the check: opaque
		case "load":
			if lw := irWidth(ins.ty); lw > 0 && ins.res != "" {
				name := "ld_" + strings.TrimPrefix(ins.res, "%")
				e.decls = append(e.decls, fmt.Sprintf("(declare-const %s (_ BitVec %d))\n", name, lw))
				e.vals[ins.res] = irVal{t: name, w: lw, poison: "false"}
			}
		case "ret":
			if ins.ty == "ptr" {
				if v, ok := e.vals[ins.args[0]]; ok {
					return v
				}
				return irVal{} // a pointer produced by a run-time call: opaque
			}
			if len(ins.args) == 1 && w > 0 {
				return e.operand(ins.args[0], w)
			}
			if fw := irFPWidth(ins.ty); len(ins.args) == 1 && fw > 0 {
				return e.fpOperand(ins.args[0], fw)
			}
			if fw := irAggWidth(ins.ty); len(ins.args) == 1 && fw > 0 {
				if v, ok := e.vals[ins.args[0]]; ok && v.agg != nil {
					return v
				}
				e.err = "return of unknown aggregate"
			}
		default:
			e.err = "unsupported instruction: " + ins.raw
		}
	}
	return irVal{}
}

// ---------------------------------------------------------------------------
// Go-spec side (Appendix B of DESIGN.md): goOp / goPanics as bit-vector terms.

type goIntType struct {
	name   string
	w      int
	signed bool
}

func goIntTypeOf(name string) (goIntType, bool) {
	switch name {
	case "int8":
		return goIntType{name, 8, true}, true
	case "int16":
		return goIntType{name, 16, true}, true
	case "int32":
		return goIntType{name, 32, true}, true
	case "int64", "int":
		return goIntType{name, 64, true}, true
	case "uint8":
		return goIntType{name, 8, false}, true
	case "uint16":
		return goIntType{name, 16, false}, true
	case "uint32":
		return goIntType{name, 32, false}, true
	case "uint64", "uint", "uintptr":
		return goIntType{name, 64, false}, true
	}
	return goIntType{}, false
}

// goBinOp returns (result term, result width, panic condition) of x op y per the Go spec.
func goBinOp(op string, tx, ty goIntType, x, y string, useUF bool) (res string, w int, panics string, panicKind string, ok bool) {
	w = tx.w
	zero := bvLit(big.NewInt(0), w)
	div := func(o string) string {
		if useUF {
			return fmt.Sprintf("(uf_%s%d %s %s)", o, w, x, y)
		}
		return fmt.Sprintf("(bv%s %s %s)", o, x, y)
	}
	cmp := func(s, u string) string {
		if tx.signed {
			return "(ite (bv" + s + " " + x + " " + y + ") #b1 #b0)"
		}
		return "(ite (bv" + u + " " + x + " " + y + ") #b1 #b0)"
	}
	panics = "false"
	switch op {
	case "ADD":
		return "(bvadd " + x + " " + y + ")", w, panics, "", true
	case "SUB":
		return "(bvsub " + x + " " + y + ")", w, panics, "", true
	case "MUL":
		return "(bvmul " + x + " " + y + ")", w, panics, "", true
	case "AND":
		return "(bvand " + x + " " + y + ")", w, panics, "", true
	case "OR":
		return "(bvor " + x + " " + y + ")", w, panics, "", true
	case "XOR":
		return "(bvxor " + x + " " + y + ")", w, panics, "", true
	case "ANDNOT":
		return "(bvand " + x + " (bvnot " + y + "))", w, panics, "", true
	case "QUO", "REM":
		panics = "(= " + y + " " + zero + ")"
		minInt := bvLit(new(big.Int).Lsh(big.NewInt(1), uint(w-1)), w)
		allOnes := bvLit(big.NewInt(-1), w)
		ovf := "(and (= " + x + " " + minInt + ") (= " + y + " " + allOnes + "))"
		if op == "QUO" {
			if tx.signed {
				return "(ite " + ovf + " " + x + " " + div("sdiv") + ")", w, panics, "AssertDivideByZero", true
			}
			return div("udiv"), w, panics, "AssertDivideByZero", true
		}
		if tx.signed {
			return "(ite " + ovf + " " + zero + " " + div("srem") + ")", w, panics, "AssertDivideByZero", true
		}
		return div("urem"), w, panics, "AssertDivideByZero", true
	case "SHL", "SHR":
		// the count is judged in ITS OWN type: >= width of x gives 0 / sign fill
		wy := ty.w
		if ty.signed {
			panics = "(bvslt " + y + " " + bvLit(big.NewInt(0), wy) + ")"
		}
		big_ := "(bvuge " + y + " " + bvLit(big.NewInt(int64(w)), wy) + ")"
		if wy < 8 && w >= 1<<uint(wy) {
			big_ = "false"
		}
		var cnt string
		switch {
		case wy == w:
			cnt = y
		case wy > w:
			cnt = fmt.Sprintf("((_ extract %d 0) %s)", w-1, y)
		default:
			cnt = fmt.Sprintf("((_ zero_extend %d) %s)", w-wy, y)
		}
		if op == "SHL" {
			return "(ite " + big_ + " " + zero + " (bvshl " + x + " " + cnt + "))", w, panics, "AssertNegativeShift", true
		}
		if tx.signed {
			return "(ite " + big_ + " (bvashr " + x + " " + bvLit(big.NewInt(int64(w-1)), w) + ") (bvashr " + x + " " + cnt + "))", w, panics, "AssertNegativeShift", true
		}
		return "(ite " + big_ + " " + zero + " (bvlshr " + x + " " + cnt + "))", w, panics, "AssertNegativeShift", true
	case "EQL":
		return "(ite (= " + x + " " + y + ") #b1 #b0)", 1, panics, "", true
	case "NEQ":
		return "(ite (= " + x + " " + y + ") #b0 #b1)", 1, panics, "", true
	case "LSS":
		return cmp("slt", "ult"), 1, panics, "", true
	case "LEQ":
		return cmp("sle", "ule"), 1, panics, "", true
	case "GTR":
		return cmp("sgt", "ugt"), 1, panics, "", true
	case "GEQ":
		return cmp("sge", "uge"), 1, panics, "", true
	}
	return "", 0, "", "", false
}

func goConvert(ts, td goIntType, x string) string {
	switch {
	case td.w == ts.w:
		return x
	case td.w < ts.w:
		return fmt.Sprintf("((_ extract %d 0) %s)", td.w-1, x)
	case ts.signed:
		return fmt.Sprintf("((_ sign_extend %d) %s)", td.w-ts.w, x)
	default:
		return fmt.Sprintf("((_ zero_extend %d) %s)", td.w-ts.w, x)
	}
}

// ---------------------------------------------------------------------------

type c02Case struct {
	fn      *irFunc
	oblig   string // obligation name
	fnName  string // function under contract
	queries []c02Query
	skip    string
}

type c02Query struct {
	suffix string
	smt    string
}

func c02Prelude() string {
	var sb strings.Builder
	sb.WriteString("(set-logic ALL)\n")
	for _, w := range []int{8, 16, 32, 64} {
		for _, o := range []string{"sdiv", "udiv", "srem", "urem"} {
			fmt.Fprintf(&sb, "(declare-fun uf_%s%d ((_ BitVec %d) (_ BitVec %d)) (_ BitVec %d))\n", o, w, w, w, w)
		}
	}
	d := "(_ FloatingPoint 11 53)"
	for _, n := range []string{"cdiv_re", "cdiv_im"} {
		fmt.Fprintf(&sb, "(declare-fun %s (%s %s %s %s) %s)\n", n, d, d, d, d, d)
	}
	return sb.String()
}

// buildC02Case turns one emitted function into its obligations.
func buildC02Case(fn *irFunc, useUF bool) *c02Case {
	parts := strings.Split(fn.name, "__")
	c := &c02Case{fn: fn}
	if fn.multi {
		c.skip = "control flow in emitted code not supported by the IR interpreter"
	}
	ev := &irEval{vals: map[string]irVal{}, panic: map[string][]string{}, alive: "true", useUF: useUF}
	var decl strings.Builder
	for i, p := range fn.params {
		w := irWidth(p)
		if fw := irAggWidth(p); fw > 0 {
			name := fmt.Sprintf("a%d", i)
			fmt.Fprintf(&decl, "(declare-const %s_re %s)\n(declare-const %s_im %s)\n", name, fpSortS(fw), name, fpSortS(fw))
			ev.vals[fmt.Sprintf("%%%d", i)] = irVal{w: fw, agg: []irVal{{t: name + "_re", w: fw, poison: "false", fp: true}, {t: name + "_im", w: fw, poison: "false", fp: true}}}
			continue
		}
		if fw := irFPWidth(p); fw > 0 {
			name := fmt.Sprintf("a%d", i)
			fmt.Fprintf(&decl, "(declare-const %s %s)\n", name, fpSortS(fw))
			ev.vals[fmt.Sprintf("%%%d", i)] = irVal{t: name, w: fw, poison: "false", fp: true}
			continue
		}
		if w == 0 {
			continue // pointer / aggregate parameter: opaque
		}
		name := fmt.Sprintf("a%d", i)
		fmt.Fprintf(&decl, "(declare-const %s (_ BitVec %d))\n", name, w)
		ev.vals[fmt.Sprintf("%%%d", i)] = irVal{t: name, w: w, poison: "false"}
	}
	ret := ev.eval(fn)
	if ev.err != "" && c.skip == "" {
		c.skip = ev.err
	}
	var spec, specPanic, panicKind string
	specW := 0
	specFP := false
	specPre := "true" // the Go spec defines the result only under this condition
	ok := false
	specIm := "" // complex results: spec is the real part, specIm the imaginary part
	goComplexW := func(name string) int {
		switch name {
		case "complex64":
			return 32
		case "complex128":
			return 64
		}
		return 0
	}
	goFloatW := func(name string) int {
		switch name {
		case "float32":
			return 32
		case "float64":
			return 64
		}
		return 0
	}
	switch parts[0] {
	case "binop":
		tx, ok1 := goIntTypeOf(parts[2])
		ty, ok2 := goIntTypeOf(parts[3])
		c.fnName = "ssa.Builder.BinOp"
		c.oblig = fmt.Sprintf("ssa.Builder.BinOp/ensures-den[op=%s,x=%s,y=%s]", parts[1], parts[2], parts[3])
		if len(parts) == 5 && parts[4] == "again" {
			c.oblig = fmt.Sprintf("ssa.Builder.BinOp/ensures-den[op=%s,x=%s,y=%s,second emission in the same function]", parts[1], parts[2], parts[3])
		}
		if cw := goComplexW(parts[2]); cw > 0 && parts[2] == parts[3] {
			// complex arithmetic component-wise in IEEE arithmetic; multiplication by the
			// textbook formula (what gc computes); division is the run-time function
			// (for complex64: on the operands widened to complex128, result narrowed)
			specPanic = "false"
			a, b, cc, d := "a0_re", "a0_im", "a1_re", "a1_im"
			switch parts[1] {
			case "ADD":
				spec, specIm, specW, specFP, ok = "(fp.add RNE "+a+" "+cc+")", "(fp.add RNE "+b+" "+d+")", cw, true, true
			case "SUB":
				spec, specIm, specW, specFP, ok = "(fp.sub RNE "+a+" "+cc+")", "(fp.sub RNE "+b+" "+d+")", cw, true, true
			case "MUL":
				spec = "(fp.sub RNE (fp.mul RNE " + a + " " + cc + ") (fp.mul RNE " + b + " " + d + "))"
				specIm = "(fp.add RNE (fp.mul RNE " + a + " " + d + ") (fp.mul RNE " + b + " " + cc + "))"
				specW, specFP, ok = cw, true, true
			case "QUO":
				w := func(x string) string {
					if cw == 32 {
						return "((_ to_fp 11 53) RNE " + x + ")"
					}
					return x
				}
				argS := w(a) + " " + w(b) + " " + w(cc) + " " + w(d)
				spec, specIm = "(cdiv_re "+argS+")", "(cdiv_im "+argS+")"
				if cw == 32 {
					spec, specIm = "((_ to_fp 8 24) RNE "+spec+")", "((_ to_fp 8 24) RNE "+specIm+")"
				}
				specW, specFP, ok = cw, true, true
			case "EQL":
				spec, specW, ok = "(ite (and (fp.eq "+a+" "+cc+") (fp.eq "+b+" "+d+")) #b1 #b0)", 1, true
			case "NEQ":
				spec, specW, ok = "(ite (and (fp.eq "+a+" "+cc+") (fp.eq "+b+" "+d+")) #b0 #b1)", 1, true
			}
		} else if fw := goFloatW(parts[2]); fw > 0 && parts[2] == parts[3] {
			// IEEE-754 arithmetic, round to nearest even; comparisons are false on NaN except !=
			specPanic = "false"
			switch parts[1] {
			case "ADD", "SUB", "MUL", "QUO":
				o := map[string]string{"ADD": "add", "SUB": "sub", "MUL": "mul", "QUO": "div"}[parts[1]]
				spec, specW, specFP, ok = "(fp."+o+" RNE a0 a1)", fw, true, true
			case "EQL":
				spec, specW, ok = "(ite (fp.eq a0 a1) #b1 #b0)", 1, true
			case "NEQ":
				spec, specW, ok = "(ite (fp.eq a0 a1) #b0 #b1)", 1, true
			case "LSS", "LEQ", "GTR", "GEQ":
				o := map[string]string{"LSS": "fp.lt", "LEQ": "fp.leq", "GTR": "fp.gt", "GEQ": "fp.geq"}[parts[1]]
				spec, specW, ok = "(ite ("+o+" a0 a1) #b1 #b0)", 1, true
			}
		} else if parts[2] == "bool" {
			// bool == / != : i1 operands
			if parts[1] == "EQL" {
				spec, specW, specPanic, ok = "(ite (= a0 a1) #b1 #b0)", 1, "false", true
			} else {
				spec, specW, specPanic, ok = "(ite (= a0 a1) #b0 #b1)", 1, "false", true
			}
		} else if ok1 && ok2 {
			spec, specW, specPanic, panicKind, ok = goBinOp(parts[1], tx, ty, "a0", "a1", useUF)
		}
	case "binopc":
		tx, ok1 := goIntTypeOf(parts[2])
		c.fnName = "ssa.Builder.BinOp"
		c.oblig = fmt.Sprintf("ssa.Builder.BinOp/ensures-den[op=%s,x=%s,y=const %s]", parts[1], parts[2], parts[3])
		if ok1 {
			cs := strings.Replace(parts[3], "m", "-", 1)
			n, _ := new(big.Int).SetString(cs, 10)
			spec, specW, specPanic, panicKind, ok = goBinOp(parts[1], tx, tx, "a0", bvLit(n, tx.w), useUF)
		}
	case "binopx":
		tx, ok1 := goIntTypeOf(parts[2])
		c.fnName = "ssa.Builder.BinOp"
		c.oblig = fmt.Sprintf("ssa.Builder.BinOp/ensures-den[op=%s,x=const minInt,y=%s]", parts[1], parts[2])
		if ok1 {
			spec, specW, specPanic, panicKind, ok = goBinOp(parts[1], tx, tx, bvLit(new(big.Int).Lsh(big.NewInt(1), uint(tx.w-1)), tx.w), "a0", useUF)
		}
	case "unop":
		c.fnName = "ssa.Builder.UnOp"
		c.oblig = fmt.Sprintf("ssa.Builder.UnOp/ensures-den[op=%s,x=%s]", parts[1], parts[2])
		tx, ok1 := goIntTypeOf(parts[2])
		switch {
		case parts[1] == "SUB" && goComplexW(parts[2]) > 0:
			spec, specIm, specW, specFP, specPanic, ok = "(fp.neg a0_re)", "(fp.neg a0_im)", goComplexW(parts[2]), true, "false", true
		case parts[1] == "SUB" && goFloatW(parts[2]) > 0:
			spec, specW, specFP, specPanic, ok = "(fp.neg a0)", goFloatW(parts[2]), true, "false", true
		case parts[1] == "NOT":
			spec, specW, specPanic, ok = "(bvnot a0)", 1, "false", true
		case ok1 && parts[1] == "SUB":
			spec, specW, specPanic, ok = "(bvneg a0)", tx.w, "false", true
		case ok1 && parts[1] == "XOR":
			spec, specW, specPanic, ok = "(bvnot a0)", tx.w, "false", true
		}
	case "conv":
		c.fnName = "ssa.Builder.Convert"
		c.oblig = fmt.Sprintf("ssa.Builder.Convert/ensures-den[src=%s,dst=%s]", parts[1], parts[2])
		ts, ok1 := goIntTypeOf(parts[1])
		td, ok2 := goIntTypeOf(parts[2])
		fs, fd := goFloatW(parts[1]), goFloatW(parts[2])
		switch {
		case goComplexW(parts[1]) > 0 && goComplexW(parts[2]) > 0:
			cs, cd := goComplexW(parts[1]), goComplexW(parts[2])
			spec, specIm, specW, specFP, specPanic, ok = "a0_re", "a0_im", cd, true, "false", true
			if cs != cd {
				spec, specIm = "("+fpToFP(cd)+" RNE a0_re)", "("+fpToFP(cd)+" RNE a0_im)"
			}
		case ok1 && ok2:
			spec, specW, specPanic, ok = goConvert(ts, td, "a0"), td.w, "false", true
		case ok1 && fd > 0:
			// integer -> float: rounded to the destination precision (nearest even); signedness from the source type
			op := fpToFP(fd)
			if !ts.signed {
				op = strings.Replace(op, "to_fp", "to_fp_unsigned", 1)
			}
			spec, specW, specFP, specPanic, ok = "("+op+" RNE a0)", fd, true, "false", true
		case fs > 0 && fd > 0:
			spec, specW, specFP, specPanic, ok = "a0", fd, true, "false", true
			if fs != fd {
				spec = "(" + fpToFP(fd) + " RNE a0)"
			}
		case fs > 0 && ok2:
			// float -> integer: the fraction is discarded; defined by the Go spec only when the
			// truncated value is representable in the destination type
			op := "fp.to_sbv"
			if !td.signed {
				op = "fp.to_ubv"
			}
			spec, specW, specPanic, ok = fmt.Sprintf("((_ %s %d) RTZ a0)", op, td.w), td.w, "false", true
			specPre = fpIntInRange("a0", fs, td.w, td.signed)
		}
	default:
		c.skip = "unknown case kind"
	}
	if !ok && c.skip == "" {
		c.skip = "no Go-spec term for this case"
	}
	if c.skip != "" {
		return c
	}
	if specIm != "" {
		if ret.agg == nil || ret.w != specW {
			c.queries = append(c.queries, c02Query{"width", c02Prelude() + "(assert true)\n(check-sat)\n"})
			c.skip = "result is not a complex value of the Go type's width"
			return c
		}
		// fold the pair into the scalar shape used below
		ret = irVal{t: "(and (= " + ret.agg[0].t + " " + spec + ") (= " + ret.agg[1].t + " " + specIm + "))", w: specW, fp: true,
			poison: orS(ret.agg[0].poison, ret.agg[1].poison)}
		spec = "true"
	} else if ret.agg != nil {
		c.skip = "unexpected aggregate result"
		return c
	}
	if ret.w != specW || ret.fp != specFP {
		// well-typedness of the emitted code is part of the contract
		c.queries = append(c.queries, c02Query{"width", c02Prelude() + "(assert true)\n(check-sat)\n"})
		c.skip = fmt.Sprintf("result width %d differs from the Go type's width %d", ret.w, specW)
		return c
	}
	// emitted panics: all Assert calls of the expected kind; any other kind must never fire
	var fires, otherFires []string
	for k, v := range ev.panic {
		if k == panicKind {
			fires = append(fires, v...)
		} else {
			otherFires = append(otherFires, v...)
		}
	}
	implPanic := orS(fires...)
	pre := c02Prelude() + decl.String()
	// (a) panics exactly when Go does (and with the right kind)
	c.queries = append(c.queries, c02Query{"panics-iff", pre + fmt.Sprintf("(assert (not (and (= %s %s) (not %s))))\n(check-sat)\n(get-model)\n", implPanic, specPanic, orS(otherFires...))})
	// (b) otherwise defined, not poison, and equal to the Go result
	ubAny := orS(ev.ub...)
	c.queries = append(c.queries, c02Query{"value", pre + fmt.Sprintf("(assert (not (=> (and (not %s) %s) (and (not %s) (not %s) (= %s %s)))))\n(check-sat)\n(get-model)\n", specPanic, specPre, ubAny, ret.poison, ret.t, spec)})
	return c
}

// RunC02Harness runs the emission harness inside package ssa (overlay) and
// returns the IR text.
func RunC02Harness(opts *Options, harness, outName string) (string, error) {
	scratch := filepath.Join(opts.Scratch, "c02")
	os.MkdirAll(scratch, 0o755)
	ov := filepath.Join(scratch, "overlay-"+outName+".json")
	repl := map[string]string{filepath.Join(opts.RepoDir, "ssa", "zz_verif_emit_test.go"): filepath.Join(opts.VerifDir, "harness", harness)}
	if harness == "c03_emit_test.go" {
		// second harness file (package ssa_test): cases compiled from Go source by the real cl package
		repl[filepath.Join(opts.RepoDir, "ssa", "zz_verif_emit_cl_test.go")] = filepath.Join(opts.VerifDir, "harness", "c03_emit_cl_test.go")
	}
	for k, v := range opts.OverlayFiles {
		repl[k] = v
	}
	var sb strings.Builder
	sb.WriteString(`{"Replace":{`)
	first := true
	for k, v := range repl {
		if !first {
			sb.WriteString(",")
		}
		first = false
		fmt.Fprintf(&sb, "%q:%q", k, v)
	}
	sb.WriteString("}}")
	if err := os.WriteFile(ov, []byte(sb.String()), 0o644); err != nil {
		return "", err
	}
	out := filepath.Join(scratch, outName+".ll")
	os.Remove(out)
	os.Remove(out + ".cl")
	cmd := exec.Command(os.Getenv("GO"), "test", "-tags", "llvm14", "-overlay", ov, "-vet=off", "-count=1", "-timeout", "600s", "-run", "TestZZVerifEmit", "./ssa/")
	if os.Getenv("GO") == "" {
		cmd = exec.Command("go", cmd.Args[1:]...)
	}
	cmd.Dir = opts.RepoDir
	cmd.Env = append(os.Environ(), "VERIF_EMIT_OUT="+out, "VERIF_TIER="+opts.Tier)
	b, err := cmd.CombinedOutput()
	if err != nil {
		return "", fmt.Errorf("emission harness failed: %v\n%s", err, truncate(string(b), 3000))
	}
	text, err := os.ReadFile(out)
	if err != nil {
		return "", fmt.Errorf("emission harness wrote no IR: %v\n%s", err, truncate(string(b), 2000))
	}
	if extra, err := os.ReadFile(out + ".cl"); err == nil {
		text = append(append(text, '\n'), extra...)
	}
	return string(text), nil
}

func init() {
	PropConfigs["C02"] = &PropConfig{ID: "C02", Specs: []string{"common.smt2", "complex.smt2"},
		Modules: []Module{rtModule},
		Extra:   c02Goals,
		Undecided: []string{
			"untyped-constant arithmetic (go/types, at compile time); complex(r, i), real(z), imag(z) builtins",
			"float -> integer conversions of values whose truncation is not representable in the destination type (implementation-defined in the Go spec: no obligation)",
			"that cl/compile.go passes go/ssa's operands to BinOp/UnOp/Convert unchanged; LLVM optimisation passes and code generation",
			"constant operands: only the listed sample of constants is checked (run-time operands are covered for all values)",
		},
		Assume: []string{
			"LLVM Language Reference semantics of add/sub/mul/sdiv/udiv/srem/urem/shl/lshr/ashr/and/or/xor/icmp/select/trunc/zext/sext and fadd/fsub/fmul/fdiv/fneg/fcmp/sitofp/uitofp/fptosi/fptoui/fpext/fptrunc as transcribed in c02.go (poison for oversized shift counts and out-of-range fptosi/fptoui, undefined behaviour for division by zero and minInt/-1; IEEE-754 round-to-nearest-even for floating point, no fast-math flags)",
			"SMT-LIB FloatingPoint theory = IEEE-754 binary32/binary64; one NaN (Go's spec does not distinguish NaNs)",
			"runtime.AssertDivideByZero / AssertNegativeShift panic exactly when their argument is true (verified under C03)",
			"int, uint and uintptr are 64 bits wide (W=64 only)",
		},
	}
}

func c02Goals(ck *Checker, rep *Report, opts *Options) []*Goal {
	if opts.OnlyFn != "" && !strings.Contains("ssa.Builder.BinOp ssa.Builder.UnOp ssa.Builder.Convert", opts.OnlyFn) {
		return nil
	}
	text, err := RunC02Harness(opts, "c02_emit_test.go", "c02")
	if err != nil {
		rep.Broken = append(rep.Broken, err.Error())
		return nil
	}
	ck.E.Trusted["LLVM LangRef semantics of the emitted instructions (c02.go); LLVM passes/back ends preserve them"] = true
	fns := parseIR(text)
	seenFn := map[string]bool{}
	var goals []*Goal
	ncase := 0
	for _, fn := range fns {
		if !strings.Contains(fn.name, "__") {
			continue
		}
		fn := fn
		c := buildC02Case(fn, true)
		if c.oblig == "" {
			continue
		}
		ncase++
		if !seenFn[c.fnName] {
			seenFn[c.fnName] = true
			rep.Funcs = append(rep.Funcs, c.fnName)
		}
		if c.skip != "" {
			goals = append(goals, &Goal{Oblig: c.oblig, Fn: c.fnName, Goal: False, Expect: "unsat", Detail: c.skip, Raw: "(set-logic ALL)\n(assert true)\n(check-sat)\n; not checkable: " + c.skip + "\n"})
			continue
		}
		for qi, q := range c.queries {
			qi := qi
			goals = append(goals, &Goal{Oblig: c.oblig, Fn: c.fnName, Goal: False, Expect: "unsat", Detail: fn.name + "/" + q.suffix, Raw: q.smt,
				Replay: func(model string, o *Options) (map[string]interface{}, bool) { return c02Replay(fn, model, o) },
				Retry: func() string {
					cc := buildC02Case(fn, false)
					if qi < len(cc.queries) {
						return cc.queries[qi].smt
					}
					return ""
				}})
		}
	}
	rep.Extra["cases_enumerated"] = ncase
	rep.Extra["case_space"] = "operators {+,-,*,/,%,&,|,^,&^,==,!=,<,<=,>,>=} x 11 integer types; shifts x 11x11 (operand, count) type pairs; unary -,^ x 11, !; 11x11 integer conversions; sampled constant operands; {+,-,*,/,==,!=,<,<=,>,>=} and unary - x 2 float types; all conversions between the 11 integer and 2 float types and between the float types; {+,-,*,/,==,!=}, unary - and conversions x 2 complex types"
	if ncase < 1150 {
		rep.Broken = append(rep.Broken, fmt.Sprintf("emission harness produced only %d cases", ncase))
	}
	return goals
}

// c02Replay runs the emitted code of one case at the model's operand values
// with lli and compares with what the host Go toolchain computes for the same
// Go expression.
func c02Replay(fn *irFunc, model string, opts *Options) (map[string]interface{}, bool) {
	doc := map[string]interface{}{"case": fn.name, "emitted_ir": fn.text}
	for _, ins := range fn.body {
		if ins.op == "call" && !strings.Contains(ins.pred, ".Assert") {
			// the emitted code calls a run-time function that is not part of the module run under lli
			return nil, false
		}
	}
	mv := modelValues(model)
	vals := map[string]*big.Int{}
	parts := strings.Split(fn.name, "__")
	var args []string
	for i, p := range fn.params {
		name := fmt.Sprintf("a%d", i)
		v := big.NewInt(0)
		if fw := irAggWidth(p); fw > 0 {
			lit := func(part string) string {
				b := big.NewInt(0)
				if x, ok := mv[name+part]; ok {
					if bb, ok := sexpBits(x, FPSort(fw)); ok {
						b = bb
					}
				}
				vals[name+part] = b
				d := math.Float64frombits(b.Uint64())
				if fw == 32 {
					d = float64(math.Float32frombits(uint32(b.Uint64())))
				}
				return fmt.Sprintf("0x%016X", math.Float64bits(d))
			}
			ft := "double"
			if fw == 32 {
				ft = "float"
			}
			args = append(args, fmt.Sprintf("{ %s, %s } { %s %s, %s %s }", ft, ft, ft, lit("_re"), ft, lit("_im")))
			continue
		}
		if fw := irFPWidth(p); fw > 0 {
			if x, ok := mv[name]; ok {
				if b, ok := sexpBits(x, FPSort(fw)); ok {
					v = b
				}
			}
			vals[name] = v
			// LLVM writes float and double constants as the bits of the double value
			d := math.Float64frombits(v.Uint64())
			if fw == 32 {
				d = float64(math.Float32frombits(uint32(v.Uint64())))
			}
			args = append(args, fmt.Sprintf("%s 0x%016X", p, math.Float64bits(d)))
			continue
		}
		if x, ok := mv[name]; ok {
			if b, ok := sexpBits(x, BV(irWidth(p), false)); ok {
				v = b
			}
		}
		vals[name] = v
		args = append(args, fmt.Sprintf("%s %s", p, v.String()))
	}
	doc["operands"] = args
	dir := filepath.Join(opts.Scratch, "c02", "replay-"+mangle(fn.name))
	os.MkdirAll(dir, 0o755)
	// --- the emitted code under lli
	var ll strings.Builder
	ll.WriteString("declare i32 @printf(i8*, ...)\ndeclare void @exit(i32)\n")
	ll.WriteString("@fmt = private constant [6 x i8] c\"%llu\\0A\\00\"\n@pan = private constant [7 x i8] c\"PANIC\\0A\\00\"\n")
	for _, a := range []string{"AssertDivideByZero", "AssertNegativeShift", "AssertIndexRange"} {
		fmt.Fprintf(&ll, "define void @\"github.com/goplus/llgo/runtime/internal/runtime.%s\"(i1 %%c) {\n  br i1 %%c, label %%p, label %%ok\np:\n  %%1 = call i32 (i8*, ...) @printf(i8* getelementptr inbounds ([7 x i8], [7 x i8]* @pan, i32 0, i32 0))\n  call void @exit(i32 0)\n  unreachable\nok:\n  ret void\n}\n", a)
	}
	ll.WriteString(fn.text)
	rw := irWidth(fn.ret)
	rfw := irFPWidth(fn.ret)
	raw := irAggWidth(fn.ret)
	retTy := fn.ret
	switch raw {
	case 64:
		retTy = "{ double, double }"
	case 32:
		retTy = "{ float, float }"
	}
	fmt.Fprintf(&ll, "define i32 @main() {\n  %%r = call %s @\"%s\"(%s)\n", retTy, fn.name, strings.Join(args, ", "))
	if raw > 0 {
		ft, it := "double", "i64"
		if raw == 32 {
			ft, it = "float", "i32"
		}
		for k, part := range []string{"re", "im"} {
			fmt.Fprintf(&ll, "  %%%s = extractvalue %s %%r, %d\n  %%%sb = bitcast %s %%%s to %s\n", part, retTy, k, part, ft, part, it)
			if raw == 32 {
				fmt.Fprintf(&ll, "  %%%sz = zext i32 %%%sb to i64\n", part, part)
			} else {
				fmt.Fprintf(&ll, "  %%%sz = add i64 %%%sb, 0\n", part, part)
			}
			fmt.Fprintf(&ll, "  %%q%s = call i32 (i8*, ...) @printf(i8* getelementptr inbounds ([6 x i8], [6 x i8]* @fmt, i32 0, i32 0), i64 %%%sz)\n", part, part)
		}
		ll.WriteString("  ret i32 0\n}\n")
	}
	switch {
	case raw > 0:
	case rfw == 32:
		ll.WriteString("  %rb = bitcast float %r to i32\n  %z = zext i32 %rb to i64\n")
	case rfw == 64:
		ll.WriteString("  %z = bitcast double %r to i64\n")
	case rw < 64:
		fmt.Fprintf(&ll, "  %%z = zext %s %%r to i64\n", fn.ret)
	default:
		ll.WriteString("  %z = add i64 %r, 0\n")
	}
	if raw == 0 {
		ll.WriteString("  %q = call i32 (i8*, ...) @printf(i8* getelementptr inbounds ([6 x i8], [6 x i8]* @fmt, i32 0, i32 0), i64 %z)\n  ret i32 0\n}\n")
	}
	llFile := filepath.Join(dir, "case.ll")
	os.WriteFile(llFile, []byte(ll.String()), 0o644)
	out, err := exec.Command("lli-14", llFile).CombinedOutput()
	got := strings.TrimSpace(string(out))
	doc["emitted_code_result"] = got
	if err != nil {
		// the emitted code crashed (e.g. SIGFPE on an undefined division)
		got = "CRASH(" + err.Error() + ") " + got
		doc["emitted_code_result"] = got
	}
	// --- the same expression under the host Go toolchain (the reference semantics)
	var expr string
	goLit := func(ty string, v *big.Int) string {
		switch ty {
		case "complex64", "complex128":
			return "" // handled by cLit
		case "float32":
			return fmt.Sprintf("math.Float32frombits(0x%x)", v)
		case "float64":
			return fmt.Sprintf("math.Float64frombits(0x%x)", v)
		}
		t, _ := goIntTypeOf(ty)
		x := new(big.Int).Set(v)
		if t.signed && x.Bit(t.w-1) == 1 {
			x.Sub(x, new(big.Int).Lsh(big.NewInt(1), uint(t.w)))
		}
		return x.String()
	}
	opSym := map[string]string{"ADD": "+", "SUB": "-", "MUL": "*", "QUO": "/", "REM": "%", "AND": "&", "OR": "|", "XOR": "^", "ANDNOT": "&^", "SHL": "<<", "SHR": ">>",
		"EQL": "==", "NEQ": "!=", "LSS": "<", "LEQ": "<=", "GTR": ">", "GEQ": ">="}
	decl := ""
	resTy := ""
	cLit := func(ty, name string) string {
		re, im := vals[name+"_re"], vals[name+"_im"]
		if re == nil {
			re = big.NewInt(0)
		}
		if im == nil {
			im = big.NewInt(0)
		}
		if ty == "complex64" {
			return fmt.Sprintf("complex(math.Float32frombits(0x%x), math.Float32frombits(0x%x))", re, im)
		}
		return fmt.Sprintf("complex(math.Float64frombits(0x%x), math.Float64frombits(0x%x))", re, im)
	}
	isC := func(ty string) bool { return ty == "complex64" || ty == "complex128" }
	if len(parts) > 2 && (isC(parts[1]) || isC(parts[2])) {
		if raw == 0 && rw != 1 {
			return doc, false
		}
		switch parts[0] {
		case "binop":
			decl = fmt.Sprintf("var x %s = %s\n\tvar y %s = %s\n", parts[2], cLit(parts[2], "a0"), parts[3], cLit(parts[3], "a1"))
			expr = "x " + opSym[parts[1]] + " y"
		case "unop":
			decl = fmt.Sprintf("var x %s = %s\n", parts[2], cLit(parts[2], "a0"))
			expr = "-x"
		case "conv":
			decl = fmt.Sprintf("var x %s = %s\n", parts[1], cLit(parts[1], "a0"))
			expr = parts[2] + "(x)"
		default:
			return doc, false
		}
		printer := "fmt.Println(b2u(r))"
		switch raw {
		case 64:
			printer = "fmt.Println(math.Float64bits(real(r)))\n\tfmt.Println(math.Float64bits(imag(r)))"
		case 32:
			printer = "fmt.Println(uint64(math.Float32bits(real(r))))\n\tfmt.Println(uint64(math.Float32bits(imag(r))))"
		}
		prog := fmt.Sprintf("package main\n\nimport (\n\t\"fmt\"\n\t\"math\"\n)\n\nvar _ = math.Pi\n\nfunc b2u(b bool) uint64 {\n\tif b {\n\t\treturn 1\n\t}\n\treturn 0\n}\n\nfunc main() {\n\t%s\tr := %s\n\t%s\n\t_ = b2u\n}\n", decl, expr, printer)
		goFile := filepath.Join(dir, "ref.go")
		os.WriteFile(goFile, []byte(prog), 0o644)
		doc["go_expression"] = strings.ReplaceAll(decl, "\n\t", "; ") + "r := " + expr
		gobin := os.Getenv("GO")
		if gobin == "" {
			gobin = "go"
		}
		cmd := exec.Command(gobin, "run", goFile)
		cmd.Env = append(os.Environ(), "GOFLAGS=-mod=mod", "GO111MODULE=off")
		out2, err2 := cmd.CombinedOutput()
		want := strings.TrimSpace(string(out2))
		doc["go_toolchain_result"] = want
		if err2 != nil && want == "" {
			doc["go_error"] = err2.Error()
			return doc, false
		}
		gl, wl := strings.Fields(got), strings.Fields(want)
		disagree := len(gl) != len(wl)
		for i := 0; !disagree && i < len(gl); i++ {
			if gl[i] == wl[i] {
				continue
			}
			g, e1 := strconv.ParseUint(gl[i], 10, 64)
			w, e2 := strconv.ParseUint(wl[i], 10, 64)
			nan := func(b uint64) bool {
				if raw == 32 {
					f := math.Float32frombits(uint32(b))
					return f != f
				}
				f := math.Float64frombits(b)
				return f != f
			}
			if e1 != nil || e2 != nil || raw == 0 || !(nan(g) && nan(w)) {
				disagree = true
			}
		}
		doc["disagree"] = disagree
		return doc, disagree
	}
	switch parts[0] {
	case "binop":
		if parts[2] == "bool" {
			return doc, false
		}
		decl = fmt.Sprintf("var x %s = %s\n\tvar y %s = %s\n", parts[2], goLit(parts[2], vals["a0"]), parts[3], goLit(parts[3], vals["a1"]))
		expr = "x " + opSym[parts[1]] + " y"
		resTy = parts[2]
	case "binopc":
		cs := strings.Replace(parts[3], "m", "-", 1)
		decl = fmt.Sprintf("var x %s = %s\n\tvar y %s = %s\n", parts[2], goLit(parts[2], vals["a0"]), parts[2], cs)
		expr = "x " + opSym[parts[1]] + " y"
		resTy = parts[2]
	case "unop":
		if parts[2] == "bool" {
			return doc, false
		}
		decl = fmt.Sprintf("var x %s = %s\n", parts[2], goLit(parts[2], vals["a0"]))
		expr = map[string]string{"SUB": "-x", "XOR": "^x"}[parts[1]]
		resTy = parts[2]
	case "conv":
		decl = fmt.Sprintf("var x %s = %s\n", parts[1], goLit(parts[1], vals["a0"]))
		expr = parts[2] + "(x)"
		resTy = parts[2]
	default:
		return doc, false
	}
	conv := "uint64(r)"
	switch {
	case rfw == 32:
		conv = "uint64(math.Float32bits(float32(r)))"
	case rfw == 64:
		conv = "math.Float64bits(float64(r))"
	case rw == 1:
		conv = "b2u(r)"
	case rw < 64:
		conv = fmt.Sprintf("uint64(uint%d(r))", rw)
	}
	_ = resTy
	prog := fmt.Sprintf("package main\n\nimport (\n\t\"fmt\"\n\t\"math\"\n)\n\nvar _ = math.Pi\n\nfunc b2u(b bool) uint64 {\n\tif b {\n\t\treturn 1\n\t}\n\treturn 0\n}\n\nfunc main() {\n\tdefer func() {\n\t\tif recover() != nil {\n\t\t\tfmt.Println(\"PANIC\")\n\t\t}\n\t}()\n\t%s\tr := %s\n\tfmt.Println(%s)\n\t_ = b2u\n}\n", decl, expr, conv)
	goFile := filepath.Join(dir, "ref.go")
	os.WriteFile(goFile, []byte(prog), 0o644)
	doc["go_expression"] = strings.ReplaceAll(decl, "\n\t", "; ") + "r := " + expr
	gobin := os.Getenv("GO")
	if gobin == "" {
		gobin = "go"
	}
	cmd := exec.Command(gobin, "run", goFile)
	cmd.Env = append(os.Environ(), "GOFLAGS=-mod=mod", "GO111MODULE=off")
	out2, err2 := cmd.CombinedOutput()
	want := strings.TrimSpace(string(out2))
	doc["go_toolchain_result"] = want
	if err2 != nil && want == "" {
		doc["go_error"] = err2.Error()
		return doc, false
	}
	disagree := got != want
	if disagree && rfw > 0 {
		// two NaNs are the same result
		g, e1 := strconv.ParseUint(got, 10, 64)
		w, e2 := strconv.ParseUint(want, 10, 64)
		if e1 == nil && e2 == nil {
			isNaN := func(b uint64) bool {
				if rfw == 32 {
					f := math.Float32frombits(uint32(b))
					return f != f
				}
				f := math.Float64frombits(b)
				return f != f
			}
			if isNaN(g) && isNaN(w) {
				disagree = false
			}
		}
	}
	doc["disagree"] = disagree
	return doc, disagree
}
