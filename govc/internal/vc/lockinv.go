package vc

import (
	"fmt"
	"go/types"
	"strings"

	"golang.org/x/tools/go/ssa"
)

// Monitor (lock-invariant) reasoning, Owicki-Gries style:
//   Lock    : protected state becomes arbitrary (other threads ran), the lock
//             invariant is assumed;
//   Unlock  : the lock invariant is an obligation;
//   Wait    : Unlock followed by Lock (also models spurious wake-ups);
//   protected fields may only be accessed while the lock is held (obligation).
// What is proved holds under every interleaving, given that the pthread mutex
// provides mutual exclusion (trusted). Nothing about progress is claimed.

const psyncPkg = "github.com/goplus/llgo/runtime/internal/clite/pthread/sync"

func init() {
	lockOps["(*"+psyncPkg+".Mutex).Lock"] = lkLock
	lockOps["(*"+psyncPkg+".Mutex).Unlock"] = lkUnlock
	lockOps["(*"+psyncPkg+".Mutex).Init"] = lkInit
	lockOps["(*"+psyncPkg+".Mutex).Destroy"] = lkInit
	lockOps["(*"+psyncPkg+".Cond).Wait"] = lkWait
	lockOps["(*"+psyncPkg+".Cond).Signal"] = lkSignal
	lockOps["(*"+psyncPkg+".Cond).Broadcast"] = lkSignal
	lockOps["(*"+psyncPkg+".Cond).Init"] = lkInit
	lockOps["(*"+psyncPkg+".Cond).Destroy"] = lkInit
}

type monitor struct{}

// mutexOwner finds, for the SSA value of a *Mutex argument, the struct type /
// field it is embedded in and the SSA value of the owning object.
func mutexOwner(v ssa.Value) (typ, field string, owner ssa.Value, ok bool) {
	fa, isFA := v.(*ssa.FieldAddr)
	if !isFA {
		return "", "", nil, false
	}
	pt, isP := fa.X.Type().Underlying().(*types.Pointer)
	if !isP {
		return "", "", nil, false
	}
	stt, isS := pt.Elem().Underlying().(*types.Struct)
	if !isS {
		return "", "", nil, false
	}
	name := typeKey(pt.Elem())
	if i := strings.LastIndex(name, "."); i >= 0 {
		name = name[i+1:]
	}
	return name, stt.Field(fa.Field).Name(), fa.X, true
}

func (monitor) op(r *FnRun, st *State, x *ssa.Call, k lockOpKind, args []Val) Val {
	r.E.Trusted["pthread mutex/cond: mutual exclusion; Cond.Wait atomically releases and re-acquires and may wake spuriously; no fairness assumed"] = true
	ret := func() Val {
		if x.Call.Signature().Results().Len() == 1 {
			return BVInt(0, 32, true)
		}
		return nil
	}
	switch k {
	case lkInit:
		return ret()
	case lkSignal:
		// ghost(signals): number of Signal/Broadcast calls issued by this invocation
		if strings.HasSuffix(x.Call.StaticCallee().Name(), "Signal") || strings.HasSuffix(x.Call.StaticCallee().Name(), "Broadcast") {
			r.ghostInc(st, "signals", True)
		}
		// ghost(broadcasts): number of Broadcast calls (a Signal wakes ONE waiter, which
		// is not enough where waiters of different kinds share a condition variable)
		if strings.HasSuffix(x.Call.StaticCallee().Name(), "Broadcast") {
			r.ghostInc(st, "broadcasts", True)
		}
		return ret()
	}
	mv := x.Call.Args[0]
	if k == lkWait {
		mv = x.Call.Args[1]
	}
	typ, field, ownerV, ok := mutexOwner(mv)
	var key string
	var decl *LockDecl
	if ok {
		owner := r.operand(st, ownerV)
		if ot, isT := owner.(Term); isT {
			st.ghost["lockowner:"+typ+"."+field] = ot
			st.ghost["lockownertype:"+typ+"."+field] = ownerV.Type()
		}
		key = typ + "." + field + "@" + describeVal(owner)
		for _, l := range r.C.Locks {
			if l.Type == typ && l.Field == field {
				decl = l
			}
		}
	} else {
		key = "mutex@" + describeVal(r.operand(st, mv))
	}
	site := fmt.Sprintf("#%d", r.siteIdx[x])
	switch k {
	case lkLock:
		if st.locks[key] > 0 {
			r.addGoal(st, "lock.not-reentrant"+site, r.posOf(x), False, nil)
		}
		st.locks[key] = 1
		st.ghost["ghost:obs_zero"] = BVInt(0, 32, false)
		r.acquire(st, decl, key)
	case lkUnlock:
		if st.locks[key] == 0 {
			r.addGoal(st, "lock.held-at-unlock"+site, r.posOf(x), False, nil)
		}
		r.release(st, decl, key, "unlock"+site, x)
		st.locks[key] = 0
		st.ghost["ghost:obs_zero"] = BVInt(0, 32, false)
	case lkWait:
		if st.locks[key] == 0 {
			r.addGoal(st, "lock.held-at-wait"+site, r.posOf(x), False, nil)
		}
		r.release(st, decl, key, "wait"+site, x)
		if decl != nil {
			// what this thread did to the protected state before going to sleep
			env := r.lockEnv(st)
			for i, c := range decl.WaitInv {
				r.addGoal(st, "waitinv."+clauseLabel(c, i)+"@wait"+site, r.posOf(x), env.evalBool(c.E), c.Props)
			}
		}
		st.ghost["ghost:obs_zero"] = BVInt(0, 32, false) // the mutex was released while sleeping
		r.acquire(st, decl, key)
	}
	return ret()
}

func (r *FnRun) lockEnv(st *State) *Env {
	env := r.env(st, r.Entry)
	// `self` denotes the object owning the lock (when it is not a parameter)
	for _, l := range r.C.Locks {
		if o, ok := st.ghost["lockowner:"+l.Type+"."+l.Field].(Term); ok {
			env.vars["self"] = o
			env.vtypes["self"] = st.ghost["lockownertype:"+l.Type+"."+l.Field].(types.Type)
		} else if _, have := env.vars["self"]; !have && r.Fn != nil && r.Fn.Pkg != nil {
			// no lock operation on this path yet: the owner object is unknown
			if obj := r.Fn.Pkg.Pkg.Scope().Lookup(l.Type); obj != nil {
				key := "unknownowner:" + l.Type
				o, ok := st.ghost[key].(Term)
				if !ok {
					o = st.declare(r.freshName("unknown_"+l.Type), BV(PtrW, false))
					st.ghost[key] = o
				}
				env.vars["self"] = o
				env.vtypes["self"] = types.NewPointer(obj.Type())
			}
		}
	}
	return env
}

func (r *FnRun) acquire(st *State, decl *LockDecl, key string) {
	if decl != nil {
		env := r.lockEnv(st)
		ms := &modSpec{fields: map[string][]Term{}}
		r.addProtects(env, decl, ms)
		// other threads may have changed everything the lock protects
		for _, m := range allArrays(st) {
			if !ms.touches(m) {
				continue
			}
			old := r.arr(st, m)
			nw := st.declare(r.freshName(m+"_acq"), fieldArraySort(r.arrElemSort(m)))
			a := Term{"a!f", BV(64, false)}
			st.assume(Forall([]Term{a}, Implies(Not(ms.mayChange(m, a)), Ident(Select(nw, a), Select(old, a)))), "acquire: unprotected state unchanged")
			st.mem[m] = nw
		}
		env = r.lockEnv(st)
		env.assuming = true
		for _, c := range decl.Inv {
			st.assume(env.evalBool(c.E), "lock invariant "+c.Label)
		}
	}
	st.csAcq = st.clone()
	st.csAcq.csAcq = st.csAcq
	st.addTrace("acquire %s", key)
}

func (r *FnRun) release(st *State, decl *LockDecl, key, where string, x ssa.Instruction) {
	if decl != nil {
		env := r.lockEnv(st)
		for i, c := range decl.Inv {
			r.addGoal(st, "lockinv."+clauseLabel(c, i)+"@"+where, r.posOf(x), env.evalBool(c.E), c.Props)
		}
	}
	st.csRel = st.clone()
	st.csRel.csRel = st.csRel
	st.addTrace("release %s", key)
}

func clauseLabel(c *Clause, i int) string {
	if c.Label != "" {
		return c.Label
	}
	return fmt.Sprint(i + 1)
}

// protectedBy reports whether field (typ, name) is listed in a protects clause.
func (r *FnRun) protectedBy(typ *types.Struct, key string, idx int) *LockDecl {
	fname := typ.Field(idx).Name()
	tname := strings.TrimPrefix(key, "F!")
	for _, l := range r.C.Locks {
		for _, p := range l.Protects {
			for _, item := range strings.Split(p, ",") {
				item = strings.TrimSpace(item)
				if j := strings.LastIndex(item, "."); j >= 0 && item[j+1:] == fname && !strings.HasPrefix(item, "bytes(") {
					// the item's base must be a pointer to this struct type
					base := strings.TrimSpace(item[:j])
					if base == "self" && tname == "runtime_"+l.Type || base == "self" && strings.HasSuffix(tname, "_"+l.Type) {
						return l
					}
					if t, ok := r.ptypes[base]; ok {
						if pt, ok := t.Underlying().(*types.Pointer); ok && strings.TrimPrefix(structKey(pt.Elem()), "F!") == tname {
							return l
						}
					}
				}
			}
		}
	}
	return nil
}

func (monitor) access(r *FnRun, st *State, ins ssa.Instruction, addr Term, t types.Type, rw string) {
}

// checkFieldAccess: a protected field may only be touched while its lock is held.
func (r *FnRun) checkFieldAccess(st *State, ins ssa.Instruction, fp *FieldPtr, rw string) {
	if len(r.C.Locks) == 0 {
		return
	}
	l := r.protectedBy(fp.S, fp.Key, fp.Idx)
	if l == nil {
		if rw == "write" && r.C.Opts["init"] != "yes" {
			// writes to unprotected fields of a monitor object are races unless this is initialisation
			for _, ld := range r.C.Locks {
				if strings.HasSuffix(fp.Key, "_"+ld.Type) {
					r.addGoal(st, fmt.Sprintf("lock.unprotected-write#%d", r.siteIdx[ins]), r.posOf(ins)+" field "+fp.S.Field(fp.Idx).Name(), False, nil)
				}
			}
		}
		return
	}
	held := false
	for k, n := range st.locks {
		if n > 0 && strings.HasPrefix(k, l.Type+"."+l.Field+"@") {
			held = true
		}
	}
	if !held {
		r.addGoal(st, fmt.Sprintf("lock.held-at-%s#%d", rw, r.siteIdx[ins]), r.posOf(ins)+" field "+fp.S.Field(fp.Idx).Name(), False, nil)
	}
}

func (monitor) atExit(r *FnRun, o *Outcome) {
	for k, n := range o.St.locks {
		if n > 0 {
			r.addGoal(o.St, "lock.released-at-exit", k, False, nil)
		}
	}
}

func (r *FnRun) addProtects(env *Env, decl *LockDecl, ms *modSpec) {
	for _, p := range decl.Protects {
		ex, err := ParseExpr("f(" + p + ")")
		if err != nil {
			panic(unsupported("bad protects clause: " + err.Error()))
		}
		for _, a := range ex.(*ECall).Args {
			if call, ok := a.(*ECall); ok {
				if id, ok := call.Fn.(*EIdent); ok && id.Name == "bytes" {
					ms.ranges = append(ms.ranges, modRange{env.evalTerm(call.Args[0]), env.evalTerm(call.Args[1])})
					continue
				}
			}
			env.addrOf(a, ms)
		}
	}
}
