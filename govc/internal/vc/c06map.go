package vc

import (
	"bytes"
	"fmt"
	"go/ast"
	goparser "go/parser"
	"go/printer"
	"go/token"
	"os"
	"os/exec"
	"path/filepath"
	"regexp"
	"strings"
)

// c06MapBounded: BOUNDED stand-in for the finite-map refinement clause of C06.
// map.go (whole file) and the llgo iteration/operation wrappers of z_map.go
// are copied mechanically from the working tree into a scratch package
// (dropped: the package clause, //go:linkname lines, and every declaration of
// z_map.go not named below; of stubs.go only add, roundupsize, memclrHasPointers
// and memclrNoHeapPointers are taken), linked against the hand-written environment
// harness/c06_map/shim.go, and driven against Go's own map by
// harness/c06_map/map_test.go.
func c06MapBounded(ck *Checker, rep *Report, opts *Options) {
	if opts.OnlyFn != "" {
		return
	}
	rtDir := filepath.Join(opts.RepoDir, "runtime", "internal", "runtime")
	read := func(name string) ([]byte, error) {
		p := filepath.Join(rtDir, name)
		if b, ok := opts.Overlay[p]; ok {
			return b, nil
		}
		return os.ReadFile(p)
	}
	scratch := filepath.Join(opts.Scratch, "c06map")
	os.MkdirAll(scratch, 0o755)
	src, err := read("map.go")
	if err != nil {
		rep.Broken = append(rep.Broken, "c06 map harness: "+err.Error())
		return
	}
	text := regexp.MustCompile(`(?m)^package runtime\s*$`).ReplaceAllString(string(src), "package mapx")
	text = regexp.MustCompile(`(?m)^//go:linkname .*\n`).ReplaceAllString(text, "")
	os.WriteFile(filepath.Join(scratch, "map.go"), []byte(text), 0o644)
	zsrc, err := read("z_map.go")
	if err != nil {
		rep.Broken = append(rep.Broken, "c06 map harness: "+err.Error())
		return
	}
	fset := token.NewFileSet()
	zf, err := goparser.ParseFile(fset, "z_map.go", zsrc, goparser.ParseComments)
	if err != nil {
		rep.Broken = append(rep.Broken, "c06 map harness: "+err.Error())
		return
	}
	want := map[string]bool{"Map": true, "llgoMapIter": true, "MakeMap": true, "MapAssign": true, "MapAccess1": true, "MapAccess2": true,
		"MapDelete": true, "MapClear": true, "NewMapIter": true, "MapIterNext": true, "MapLen": true}
	var zb bytes.Buffer
	zb.WriteString("package mapx\n\nimport \"unsafe\"\n\nvar _ unsafe.Pointer\n\n")
	found := 0
	for _, d := range zf.Decls {
		keep := false
		switch x := d.(type) {
		case *ast.FuncDecl:
			keep = x.Recv == nil && want[x.Name.Name]
			x.Doc = nil
		case *ast.GenDecl:
			if x.Tok == token.TYPE && len(x.Specs) == 1 {
				keep = want[x.Specs[0].(*ast.TypeSpec).Name.Name]
			}
			x.Doc = nil
		}
		if keep {
			found++
			printer.Fprint(&zb, fset, d)
			zb.WriteString("\n\n")
		}
	}
	if found != len(want) {
		rep.Broken = append(rep.Broken, fmt.Sprintf("c06 map harness: only %d of %d wrapper declarations found in z_map.go", found, len(want)))
		return
	}
	os.WriteFile(filepath.Join(scratch, "zmap.go"), zb.Bytes(), 0o644)
	// helpers of stubs.go that are plain Go: the real ones, not re-implementations
	ssrc, err := read("stubs.go")
	if err != nil {
		rep.Broken = append(rep.Broken, "c06 map harness: "+err.Error())
		return
	}
	sf, err := goparser.ParseFile(fset, "stubs.go", ssrc, goparser.ParseComments)
	if err != nil {
		rep.Broken = append(rep.Broken, "c06 map harness: "+err.Error())
		return
	}
	swant := map[string]bool{"add": true, "roundupsize": true, "memclrHasPointers": true, "memclrNoHeapPointers": true}
	var stb bytes.Buffer
	stb.WriteString("package mapx\n\nimport \"unsafe\"\n\nvar _ unsafe.Pointer\n\n")
	sfound := 0
	for _, d := range sf.Decls {
		if x, ok := d.(*ast.FuncDecl); ok && x.Recv == nil && swant[x.Name.Name] && x.Body != nil {
			x.Doc = nil
			sfound++
			printer.Fprint(&stb, fset, x)
			stb.WriteString("\n\n")
		}
	}
	if sfound != len(swant) {
		rep.Broken = append(rep.Broken, fmt.Sprintf("c06 map harness: only %d of %d helper functions found in stubs.go", sfound, len(swant)))
		return
	}
	os.WriteFile(filepath.Join(scratch, "stubs.go"), stb.Bytes(), 0o644)
	// overlay: a package directory that does not exist in the module (it must live
	// inside runtime/internal to be allowed to import the internal helper packages)
	pkgDir := filepath.Join(opts.RepoDir, "runtime", "internal", "zzverif", "mapx")
	repl := map[string]string{
		filepath.Join(pkgDir, "map.go"):      filepath.Join(scratch, "map.go"),
		filepath.Join(pkgDir, "zmap.go"):     filepath.Join(scratch, "zmap.go"),
		filepath.Join(pkgDir, "stubs.go"):    filepath.Join(scratch, "stubs.go"),
		filepath.Join(pkgDir, "shim.go"):     filepath.Join(opts.VerifDir, "harness", "c06_map", "shim.go"),
		filepath.Join(pkgDir, "map_test.go"): filepath.Join(opts.VerifDir, "harness", "c06_map", "map_test.go"),
	}
	for a, b := range opts.OverlayFiles {
		if !strings.HasSuffix(a, "/runtime/internal/runtime/map.go") && !strings.HasSuffix(a, "/runtime/internal/runtime/z_map.go") && !strings.HasSuffix(a, "/runtime/internal/runtime/stubs.go") {
			repl[a] = b
		}
	}
	var sb strings.Builder
	sb.WriteString(`{"Replace":{`)
	first := true
	for a, b := range repl {
		if !first {
			sb.WriteString(",")
		}
		first = false
		fmt.Fprintf(&sb, "%q:%q", a, b)
	}
	sb.WriteString("}}")
	ov := filepath.Join(scratch, "overlay.json")
	os.WriteFile(ov, []byte(sb.String()), 0o644)
	gobin := os.Getenv("GO")
	if gobin == "" {
		gobin = "go"
	}
	bin := filepath.Join(scratch, "maptest.bin")
	cmd := exec.Command(gobin, "test", "-overlay", ov, "-vet=off", "-c", "-o", bin, "./internal/zzverif/mapx/")
	cmd.Dir = filepath.Join(opts.RepoDir, "runtime")
	if out, err := cmd.CombinedOutput(); err != nil {
		// the real file no longer compiles against the environment shim
		rep.Broken = append(rep.Broken, "c06 map harness does not build: "+truncate(string(out), 1500))
		return
	}
	seeds, ops := "100", "400"
	if opts.Tier == "thorough" {
		seeds, ops = "1500", "500"
	}
	run := exec.Command(bin, "-test.run", "TestZZVerifMapRefinement", "-test.v", "-test.timeout", "1500s")
	run.Dir = scratch
	run.Env = append(os.Environ(), "VERIF_C06=1", "VERIF_C06_SEEDS="+seeds, "VERIF_C06_OPS="+ops, fmt.Sprintf("VERIF_SEED=%d", opts.Seed))
	out, _ := run.CombinedOutput()
	parseBounded(rep, string(out), "c06map", 1, "finite-map-refinement",
		seeds+" pseudo-random sequences of "+ops+" operations (assign, delete, lookup, len, clear, bulk load/delete, range loops with and without mutation by the loop body, loops started in the middle of a grow, insertion bursts during a loop) for each of 28 configurations: 5 hash functions from constant to well mixed x pointer-free or pointer-carrying buckets x key domains of 12, 70 and 400; uint64 keys and values; compared after every operation with Go's own map; plus map[float64]int64 with NaN keys (each insertion a new entry), +0/-0 and ordinary floats: 420 maps of 1..140 entries iterated at every stage of a doubling grow with a write (delete of an absent key, overwrite, new NaN entry) in every loop step - every entry present for the whole loop exactly once, none twice, len and failed NaN lookups")
	if m := regexp.MustCompile(`ZZSTATS (.*)`).FindStringSubmatch(string(out)); m != nil {
		rep.Extra["map_refinement_run"] = m[1]
	}
}


// c06KeyKinds: second BOUNDED stand-in of C06 - struct, string, float and
// interface keys. map.go, alg.go, z_map.go, hash64.go (whole files: package
// clause renamed, //go:linkname lines dropped) and the four plain-Go helpers of
// stubs.go are copied from the working tree, linked against the environment
// harness/c06_keys/shim.go and driven against Go's own map by
// harness/c06_keys/keys_test.go; every key handed to the map under test lives in
// a temporary whose padding bytes and blank fields hold garbage, as in compiled
// code.
func c06KeyKinds(ck *Checker, rep *Report, opts *Options) {
	if opts.OnlyFn != "" {
		return
	}
	rtDir := filepath.Join(opts.RepoDir, "runtime", "internal", "runtime")
	read := func(name string) ([]byte, error) {
		p := filepath.Join(rtDir, name)
		if b, ok := opts.Overlay[p]; ok {
			return b, nil
		}
		return os.ReadFile(p)
	}
	scratch := filepath.Join(opts.Scratch, "c06keys")
	os.MkdirAll(scratch, 0o755)
	pkgDir := filepath.Join(opts.RepoDir, "runtime", "internal", "zzverif", "mapkeys")
	repl := map[string]string{
		filepath.Join(pkgDir, "shim.go"):      filepath.Join(opts.VerifDir, "harness", "c06_keys", "shim.go"),
		filepath.Join(pkgDir, "keys_test.go"): filepath.Join(opts.VerifDir, "harness", "c06_keys", "keys_test.go"),
	}
	for _, f := range []string{"map.go", "alg.go", "z_map.go", "hash64.go"} {
		src, err := read(f)
		if err != nil {
			rep.Broken = append(rep.Broken, "c06 key harness: "+err.Error())
			return
		}
		text := regexp.MustCompile(`(?m)^package runtime\s*$`).ReplaceAllString(string(src), "package pkg")
		text = regexp.MustCompile(`(?m)^//go:linkname .*\n`).ReplaceAllString(text, "")
		os.WriteFile(filepath.Join(scratch, f), []byte(text), 0o644)
		repl[filepath.Join(pkgDir, f)] = filepath.Join(scratch, f)
	}
	ssrc, err := read("stubs.go")
	if err != nil {
		rep.Broken = append(rep.Broken, "c06 key harness: "+err.Error())
		return
	}
	fset := token.NewFileSet()
	sf, err := goparser.ParseFile(fset, "stubs.go", ssrc, goparser.ParseComments)
	if err != nil {
		rep.Broken = append(rep.Broken, "c06 key harness: "+err.Error())
		return
	}
	swant := map[string]bool{"add": true, "roundupsize": true, "memclrHasPointers": true, "memclrNoHeapPointers": true}
	var stb bytes.Buffer
	stb.WriteString("package pkg\n\nimport \"unsafe\"\n\nvar _ unsafe.Pointer\n\n")
	n := 0
	for _, d := range sf.Decls {
		if x, ok := d.(*ast.FuncDecl); ok && x.Recv == nil && swant[x.Name.Name] && x.Body != nil {
			x.Doc = nil
			n++
			printer.Fprint(&stb, fset, x)
			stb.WriteString("\n\n")
		}
	}
	if n != len(swant) {
		rep.Broken = append(rep.Broken, fmt.Sprintf("c06 key harness: only %d of %d helper functions found in stubs.go", n, len(swant)))
		return
	}
	os.WriteFile(filepath.Join(scratch, "stubs.go"), stb.Bytes(), 0o644)
	repl[filepath.Join(pkgDir, "stubs.go")] = filepath.Join(scratch, "stubs.go")
	var sb strings.Builder
	sb.WriteString(`{"Replace":{`)
	first := true
	for a, b := range repl {
		if !first {
			sb.WriteString(",")
		}
		first = false
		fmt.Fprintf(&sb, "%q:%q", a, b)
	}
	sb.WriteString("}}")
	ov := filepath.Join(scratch, "overlay.json")
	os.WriteFile(ov, []byte(sb.String()), 0o644)
	gobin := os.Getenv("GO")
	if gobin == "" {
		gobin = "go"
	}
	bin := filepath.Join(scratch, "keystest.bin")
	cmd := exec.Command(gobin, "test", "-overlay", ov, "-vet=off", "-c", "-o", bin, "./internal/zzverif/mapkeys/")
	cmd.Dir = filepath.Join(opts.RepoDir, "runtime")
	if out, err := cmd.CombinedOutput(); err != nil {
		rep.Broken = append(rep.Broken, "c06 key harness does not build: "+truncate(string(out), 1500))
		return
	}
	run := exec.Command(bin, "-test.run", "TestZZVerifMapKeyKinds", "-test.v", "-test.timeout", "900s")
	run.Dir = scratch
	run.Env = append(os.Environ(), "VERIF_C06=1")
	out, _ := run.CombinedOutput()
	parseBounded(rep, string(out), "c06keys", 1, "key-kinds-refinement",
		"8 scenarios of 6000 pseudo-random operations (assign, lookup, delete, range, clear) over 300 keys each: struct keys with padding before a string, interior padding, float fields, blank fields, nested structs, padding-free structs, the same key presented twice with different padding, interface keys holding structs; keys presented in temporaries with zeroed and with garbage padding; compared after every operation with Go's own map; plus map[float64]int64 with NaN keys (each insertion a new entry), +0/-0 and ordinary floats: 420 maps of 1..140 entries iterated at every stage of a doubling grow with a write (delete of an absent key, overwrite, new NaN entry) in every loop step - every entry present for the whole loop exactly once, none twice, len and failed NaN lookups")
}
