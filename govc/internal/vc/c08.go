package vc

import (
	"os"
	"path/filepath"
	"regexp"
)

// C08: agreement of the three size/alignment/offset computations.
//
// The computations recurse over go/types graphs, call into the LLVM data layout
// through cgo and dispatch through the types.Sizes interface: none of that is
// inside the verifier's subset, so no contract can carry the agreement
// statement. What is decided by contract is only the shared rounding helper
// (ssa.align). The agreement itself is a BOUNDED stand-in: the three real
// computations are run in-process over a fixed family of type shapes for the
// host pointer width and for the 32-bit wasm configuration exactly as
// internal/build/build.go sets it up (the StdSizes literal is read from the
// working tree on every run).
func init() {
	PropConfigs["C08"] = &PropConfig{ID: "C08",
		Modules: []Module{{Dir: ".", Patterns: []string{"./ssa"}}},
		Specs:   []string{"common.smt2"},
		Post:    c08Bounded,
		Level:   "other",
		Explanation: "contract-based proof only for the rounding helper ssa.align; the agreement of the three size computations is a BOUNDED exhaustive execution of the real functions " +
			"(goProgram.Sizeof/Alignof/Offsetsof, LLVM data layout of the lowered type, abi.Builder.Size/Align) over a fixed family of type shapes on two pointer widths - not a proof, and not counted as one",
		Undecided: []string{
			"agreement for type shapes outside the enumerated family (bounded stand-in only)",
			"the clause about the host C compiler's layout of C-compatible structs (no C compiler run by this check)",
			"map/chan extended descriptor fields (bucket sizes) and PtrBytes",
			"targets other than the host (amd64) data layout and wasm32 (arm/386 embedded targets use the same 32-bit code paths but their LLVM data layouts are not enumerated)",
		},
	}
}

func c08Bounded(ck *Checker, rep *Report, opts *Options) {
	if opts.OnlyFn != "" {
		return
	}
	// the sizes the build gives the type checker on wasm: read from the working tree
	wasm := "4,4"
	src, err := os.ReadFile(filepath.Join(opts.RepoDir, "internal/build/build.go"))
	if b, ok := opts.Overlay[filepath.Join(opts.RepoDir, "internal/build/build.go")]; ok {
		src, err = b, nil
	}
	if err == nil {
		if m := regexp.MustCompile(`StdSizes\{WordSize:\s*(\d+),\s*MaxAlign:\s*(\d+)\}`).FindSubmatch(src); m != nil {
			wasm = string(m[1]) + "," + string(m[2])
		} else {
			ck.E.Notes["internal/build/build.go no longer contains a StdSizes{WordSize: .., MaxAlign: ..} literal for wasm; the bounded run uses 4,4"] = true
		}
	}
	runBounded(rep, opts, "c08", map[string]string{"ssa/zz_verif_sizes_test.go": "harness/c08_sizes_test.go"}, []string{"./ssa/"}, "TestZZVerifSizes",
		[]string{"VERIF_C08=1", "VERIF_C08_WASM=" + wasm, "VERIF_TIER=" + opts.Tier}, 13, "sizes-agree",
		"every basic kind; pointer, slice, map, chan, func, interface; arrays of length 0/1/3 and all structs of one and two fields over a 14-type alphabet mixing every alignment class, strings, function values, nested structs; all three-field structs over a 6-type alphabet; nested and array-of padded structs followed by a small field; zero-size tail fields; a named struct; complex numbers in arrays in structs, arrays of arrays, three-level nesting, interface/chan/map fields between small fields; the emitted struct/array descriptors (header sizes, per-field offsets) of the whole family; 121 map types whose keys/elems range from 1 to 300 bytes (descriptor KeySize/ValueSize/BucketSize vs the bucket layout) - on the host data layout (8-byte pointers) and on wasm32 with StdSizes{"+wasm+"} as internal/build/build.go configures it",
		"-tags", "llvm14")
}
