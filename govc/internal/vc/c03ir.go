package vc

import (
	"fmt"
	"math/big"
	"strings"
)

// Compiler side of C03: the bounds checks that Builder.IndexAddr / Index emit
// and the arguments Builder.Slice hands to the (separately verified) runtime
// functions NewSlice3 / StringSlice. Same method as C02 (c02.go): the real
// lowering functions are executed on LLVM parameters for every index type;
// the emitted IR is the symbolic result; obligations are discharged by SMT for
// all index values and all lengths.
//
//   contract of IndexAddr/Index, for every index type T and every bound:
//     an AssertIndexRange check fires  <=>  !(0 <= idx < bound), judged on the
//     index in its OWN type (before any width change); a check may be omitted
//     only where that condition is unsatisfiable; a constant out-of-range index
//     must still panic.
//   contract of Slice: the low/high operands reach the runtime function
//     converted value-preservingly by their own signedness (so that an
//     out-of-range value stays out of range), together with the right capacity.

func inRangeSpec(t goIntType, idx string, bound string) string {
	// bound: 64-bit, known non-negative as a signed value
	switch {
	case t.signed && t.w == 64:
		return fmt.Sprintf("(and (bvsge %s (_ bv0 64)) (bvslt %s %s))", idx, idx, bound)
	case t.signed:
		return fmt.Sprintf("(and (bvsge %s (_ bv0 %d)) (bvslt ((_ sign_extend %d) %s) %s))", idx, t.w, 64-t.w, idx, bound)
	case t.w == 64:
		return fmt.Sprintf("(and (bvsge %s (_ bv0 64)) (bvslt %s %s))", idx, idx, bound)
	default:
		return fmt.Sprintf("(bvslt ((_ zero_extend %d) %s) %s)", 64-t.w, idx, bound)
	}
}

func buildC03Case(fn *irFunc) *c02Case {
	parts := strings.Split(fn.name, "__")
	c := &c02Case{fn: fn}
	if fn.multi {
		c.skip = "control flow in emitted code not supported by the IR interpreter"
	}
	ev := &irEval{vals: map[string]irVal{}, panic: map[string][]string{}, alive: "true", useUF: true}
	var decl strings.Builder
	for i, p := range fn.params {
		w := irWidth(p)
		if w == 0 {
			continue
		}
		name := fmt.Sprintf("a%d", i)
		fmt.Fprintf(&decl, "(declare-const %s (_ BitVec %d))\n", name, w)
		ev.vals[fmt.Sprintf("%%%d", i)] = irVal{t: name, w: w, poison: "false"}
	}
	ev.eval(fn)
	if ev.err != "" && c.skip == "" {
		c.skip = ev.err
	}
	pre := func() string { return c02Prelude() + decl.String() + strings.Join(ev.decls, "") }
	var fires, otherFires []string
	for k, v := range ev.panic {
		if k == "AssertIndexRange" {
			fires = append(fires, v...)
		} else {
			otherFires = append(otherFires, v...)
		}
	}
	implPanic := orS(fires...)
	ubAny := orS(ev.ub...)
	switch parts[0] {
	case "index":
		// index__<container>__<T>__<N|len>
		t, ok := goIntTypeOf(parts[2])
		fnName := "ssa.Builder.IndexAddr"
		if parts[1] == "string" {
			fnName = "ssa.Builder.Index"
		}
		c.fnName = fnName
		c.oblig = fmt.Sprintf("%s/emits-iff[container=%s,idx=%s,len=%s]", fnName, parts[1], parts[2], parts[3])
		if !ok {
			c.skip = "unknown index type"
			return c
		}
		if c.skip != "" {
			return c
		}
		bound := ""
		if parts[3] == "len" {
			bound = "ev_0_1" // the length field of the slice / string parameter
			if !strings.Contains(strings.Join(ev.decls, ""), "ev_0_1 ") {
				c.skip = "emitted code never reads the length"
				return c
			}
		} else {
			n, _ := new(big.Int).SetString(parts[3], 10)
			bound = bvLit(n, 64)
		}
		spec := "(not " + inRangeSpec(t, "a1", bound) + ")"
		c.queries = append(c.queries, c02Query{"panics-iff", pre() + fmt.Sprintf("(assert (not (and (= %s %s) (not %s) (not %s))))\n(check-sat)\n(get-model)\n", implPanic, spec, orS(otherFires...), ubAny)})
	case "indexc":
		// indexc__arrptr__<T>__<K>__<N>: constant index
		t, ok := goIntTypeOf(parts[2])
		c.fnName = "ssa.Builder.IndexAddr"
		c.oblig = fmt.Sprintf("ssa.Builder.IndexAddr/emits-iff[container=%s,idx=const %s(%s),len=%s]", parts[1], parts[2], parts[3], parts[4])
		if !ok {
			c.skip = "unknown index type"
			return c
		}
		if c.skip != "" {
			return c
		}
		k, _ := new(big.Int).SetString(parts[3], 10)
		n, _ := new(big.Int).SetString(parts[4], 10)
		spec := "(not " + inRangeSpec(t, bvLit(k, t.w), bvLit(n, 64)) + ")"
		c.queries = append(c.queries, c02Query{"panics-iff", pre() + fmt.Sprintf("(assert (not (and (= %s %s) (not %s) (not %s))))\n(check-sat)\n(get-model)\n", implPanic, spec, orS(otherFires...), ubAny)})
	case "slice":
		// slice__<container>__<T>__ij
		t, ok := goIntTypeOf(parts[2])
		c.fnName = "ssa.Builder.Slice"
		c.oblig = fmt.Sprintf("ssa.Builder.Slice/args[container=%s,idx=%s]", parts[1], parts[2])
		if !ok {
			c.skip = "unknown index type"
			return c
		}
		if c.skip != "" {
			return c
		}
		i64 := goIntType{"int", 64, true}
		wantI, wantJ := goConvert(t, i64, "a1"), goConvert(t, i64, "a2")
		var conds []string
		found := false
		for _, call := range ev.calls {
			switch {
			case call.name == "NewSlice3" && parts[1] == "slice" && len(call.args) == 6:
				found = true
				conds = append(conds,
					fmt.Sprintf("(= %s (_ bv8 64))", call.args[1].t),
					fmt.Sprintf("(= %s ev_0_2)", call.args[2].t),
					fmt.Sprintf("(= %s %s)", call.args[3].t, wantI),
					fmt.Sprintf("(= %s %s)", call.args[4].t, wantJ),
					fmt.Sprintf("(= %s ev_0_2)", call.args[5].t),
					"(not "+orS(call.args[3].poison, call.args[4].poison)+")")
			case call.name == "StringSlice" && parts[1] == "string" && len(call.args) == 3:
				found = true
				conds = append(conds,
					fmt.Sprintf("(= %s %s)", call.args[1].t, wantI),
					fmt.Sprintf("(= %s %s)", call.args[2].t, wantJ),
					"(not "+orS(call.args[1].poison, call.args[2].poison)+")")
			}
		}
		if !found {
			c.skip = "no call of the runtime slicing function in the emitted code"
			return c
		}
		c.queries = append(c.queries, c02Query{"args", pre() + fmt.Sprintf("(assert (not (and %s (not %s) (not %s))))\n(check-sat)\n(get-model)\n", strings.Join(conds, " "), orS(fires...), ubAny)})
	case "makeslice":
		// makeslice__slice__<T>__lc: make([]int64, len, cap) with len and cap of type T
		t, ok := goIntTypeOf(parts[2])
		c.fnName = "ssa.Builder.MakeSlice"
		c.oblig = fmt.Sprintf("ssa.Builder.MakeSlice/args[elem=%s,len,cap=%s]", map[string]string{"slice": "int64", "zslice": "struct{}"}[parts[1]], parts[2])
		esz := map[string]int{"slice": 8, "zslice": 0}[parts[1]]
		if !ok {
			c.skip = "unknown size type"
			return c
		}
		if c.skip != "" {
			return c
		}
		i64 := goIntType{"int", 64, true}
		wantL, wantC := goConvert(t, i64, "a0"), goConvert(t, i64, "a1")
		var conds []string
		found := false
		for _, call := range ev.calls {
			if call.name == "MakeSlice" && len(call.args) == 3 {
				found = true
				conds = append(conds,
					fmt.Sprintf("(= %s %s)", call.args[0].t, wantL),
					fmt.Sprintf("(= %s %s)", call.args[1].t, wantC),
					fmt.Sprintf("(= %s (_ bv%d 64))", call.args[2].t, esz),
					"(not "+orS(call.args[0].poison, call.args[1].poison)+")")
			}
		}
		if !found {
			c.skip = "no call of runtime.MakeSlice in the emitted code"
			return c
		}
		c.queries = append(c.queries, c02Query{"args", pre() + fmt.Sprintf("(assert (not (and %s (not %s) (not %s))))\n(check-sat)\n(get-model)\n", strings.Join(conds, " "), orS(fires...), ubAny)})
	default:
		c.skip = "unknown case kind"
	}
	return c
}

func c03CompilerGoals(ck *Checker, rep *Report, opts *Options) []*Goal {
	if opts.OnlyFn != "" && !strings.Contains("ssa.Builder.IndexAddr Index Slice ssa.Builder.TypeAssert ssa.Builder.MakeSlice", opts.OnlyFn) {
		return nil
	}
	text, err := RunC02Harness(opts, "c03_emit_test.go", "c03")
	if err != nil {
		rep.Broken = append(rep.Broken, err.Error())
		return nil
	}
	ck.E.Trusted["LLVM LangRef semantics of the emitted instructions (c02.go); LLVM passes/back ends preserve them"] = true
	seen := map[string]bool{}
	var goals []*Goal
	n := 0
	for _, fn := range parseIR(text) {
		if !strings.Contains(fn.name, "__") {
			continue
		}
		c := buildC03Case(fn)
		if c.oblig == "" {
			continue
		}
		n++
		if !seen[c.fnName] {
			seen[c.fnName] = true
			rep.Funcs = append(rep.Funcs, c.fnName)
		}
		if c.skip != "" {
			goals = append(goals, &Goal{Oblig: c.oblig, Fn: c.fnName, Goal: False, Expect: "unsat", Detail: c.skip, Raw: "(set-logic ALL)\n(check-sat)\n; not checkable: " + c.skip + "\n"})
			continue
		}
		for _, q := range c.queries {
			goals = append(goals, &Goal{Oblig: c.oblig, Fn: c.fnName, Goal: False, Expect: "unsat", Detail: fn.name + "/" + q.suffix, Raw: q.smt})
		}
	}
	rep.Extra["compiler_side_cases"] = n
	goals = append(goals, c03TypeAssertGoals(text, rep)...)
	if n < 150 {
		rep.Broken = append(rep.Broken, fmt.Sprintf("C03 emission harness produced only %d cases", n))
	}
	return goals
}
