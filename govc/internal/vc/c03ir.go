package vc

import (
	"fmt"
	"math/big"
	"os"
	"os/exec"
	"path/filepath"
	"strings"
)

// Compiler side of C03: the bounds checks that Builder.IndexAddr / Index emit
// and the arguments Builder.Slice hands to the (separately verified) runtime
// functions NewSlice3 / StringSlice. Same method as C02 (c02.go): the real
// lowering functions are executed on LLVM parameters for every index type;
// the emitted IR is the symbolic result; obligations are discharged by SMT for
// all index values and all lengths.
//
//   contract of IndexAddr/Index, for every index type T and every bound:
//     an AssertIndexRange check fires  <=>  !(0 <= idx < bound), judged on the
//     index in its OWN type (before any width change); a check may be omitted
//     only where that condition is unsatisfiable; a constant out-of-range index
//     must still panic.
//   contract of Slice: the low/high operands reach the runtime function
//     converted value-preservingly by their own signedness (so that an
//     out-of-range value stays out of range), together with the right capacity.

func inRangeSpec(t goIntType, idx string, bound string) string {
	// bound: 64-bit, known non-negative as a signed value
	switch {
	case t.signed && t.w == 64:
		return fmt.Sprintf("(and (bvsge %s (_ bv0 64)) (bvslt %s %s))", idx, idx, bound)
	case t.signed:
		return fmt.Sprintf("(and (bvsge %s (_ bv0 %d)) (bvslt ((_ sign_extend %d) %s) %s))", idx, t.w, 64-t.w, idx, bound)
	case t.w == 64:
		return fmt.Sprintf("(and (bvsge %s (_ bv0 64)) (bvslt %s %s))", idx, idx, bound)
	default:
		return fmt.Sprintf("(bvslt ((_ zero_extend %d) %s) %s)", 64-t.w, idx, bound)
	}
}

func buildC03Case(fn *irFunc) *c02Case {
	parts := strings.Split(fn.name, "__")
	c := &c02Case{fn: fn}
	if fn.multi {
		c.skip = "control flow in emitted code not supported by the IR interpreter"
	}
	ev := &irEval{vals: map[string]irVal{}, panic: map[string][]string{}, alive: "true", useUF: true}
	var decl strings.Builder
	for i, p := range fn.params {
		w := irWidth(p)
		if w == 0 {
			continue
		}
		name := fmt.Sprintf("a%d", i)
		fmt.Fprintf(&decl, "(declare-const %s (_ BitVec %d))\n", name, w)
		ev.vals[fmt.Sprintf("%%%d", i)] = irVal{t: name, w: w, poison: "false"}
	}
	ev.eval(fn)
	if ev.err != "" && c.skip == "" {
		c.skip = ev.err
	}
	pre := func() string { return c02Prelude() + decl.String() + strings.Join(ev.decls, "") }
	var fires, otherFires []string
	for k, v := range ev.panic {
		if k == "AssertIndexRange" {
			fires = append(fires, v...)
		} else {
			otherFires = append(otherFires, v...)
		}
	}
	implPanic := orS(fires...)
	ubAny := orS(ev.ub...)
	switch parts[0] {
	case "index":
		// index__<container>__<T>__<N|len>
		t, ok := goIntTypeOf(parts[2])
		fnName := "ssa.Builder.IndexAddr"
		if parts[1] == "string" {
			fnName = "ssa.Builder.Index"
		}
		c.fnName = fnName
		c.oblig = fmt.Sprintf("%s/emits-iff[container=%s,idx=%s,len=%s]", fnName, parts[1], parts[2], parts[3])
		if !ok {
			c.skip = "unknown index type"
			return c
		}
		if c.skip != "" {
			return c
		}
		bound := ""
		if parts[3] == "len" {
			bound = "ev_0_1" // the length field of the slice / string parameter
			if !strings.Contains(strings.Join(ev.decls, ""), "ev_0_1 ") {
				c.skip = "emitted code never reads the length"
				return c
			}
		} else {
			n, _ := new(big.Int).SetString(parts[3], 10)
			bound = bvLit(n, 64)
		}
		spec := "(not " + inRangeSpec(t, "a1", bound) + ")"
		c.queries = append(c.queries, c02Query{"panics-iff", pre() + fmt.Sprintf("(assert (not (and (= %s %s) (not %s) (not %s))))\n(check-sat)\n(get-model)\n", implPanic, spec, orS(otherFires...), ubAny)})
	case "indexc":
		// indexc__arrptr__<T>__<K>__<N>: constant index
		t, ok := goIntTypeOf(parts[2])
		c.fnName = "ssa.Builder.IndexAddr"
		c.oblig = fmt.Sprintf("ssa.Builder.IndexAddr/emits-iff[container=%s,idx=const %s(%s),len=%s]", parts[1], parts[2], parts[3], parts[4])
		if !ok {
			c.skip = "unknown index type"
			return c
		}
		if c.skip != "" {
			return c
		}
		k, _ := new(big.Int).SetString(parts[3], 10)
		n, _ := new(big.Int).SetString(parts[4], 10)
		spec := "(not " + inRangeSpec(t, bvLit(k, t.w), bvLit(n, 64)) + ")"
		c.queries = append(c.queries, c02Query{"panics-iff", pre() + fmt.Sprintf("(assert (not (and (= %s %s) (not %s) (not %s))))\n(check-sat)\n(get-model)\n", implPanic, spec, orS(otherFires...), ubAny)})
	case "slice":
		// slice__<container>__<T>__ij
		t, ok := goIntTypeOf(parts[2])
		c.fnName = "ssa.Builder.Slice"
		c.oblig = fmt.Sprintf("ssa.Builder.Slice/args[container=%s,idx=%s]", parts[1], parts[2])
		if !ok {
			c.skip = "unknown index type"
			return c
		}
		if c.skip != "" {
			return c
		}
		i64 := goIntType{"int", 64, true}
		wantI, wantJ := goConvert(t, i64, "a1"), goConvert(t, i64, "a2")
		var conds []string
		found := false
		for _, call := range ev.calls {
			switch {
			case call.name == "NewSlice3" && parts[1] == "slice" && len(call.args) == 6:
				found = true
				conds = append(conds,
					fmt.Sprintf("(= %s (_ bv8 64))", call.args[1].t),
					fmt.Sprintf("(= %s ev_0_2)", call.args[2].t),
					fmt.Sprintf("(= %s %s)", call.args[3].t, wantI),
					fmt.Sprintf("(= %s %s)", call.args[4].t, wantJ),
					fmt.Sprintf("(= %s ev_0_2)", call.args[5].t),
					"(not "+orS(call.args[3].poison, call.args[4].poison)+")")
			case call.name == "StringSlice" && parts[1] == "string" && len(call.args) == 3:
				found = true
				conds = append(conds,
					fmt.Sprintf("(= %s %s)", call.args[1].t, wantI),
					fmt.Sprintf("(= %s %s)", call.args[2].t, wantJ),
					"(not "+orS(call.args[1].poison, call.args[2].poison)+")")
			}
		}
		if !found {
			c.skip = "no call of the runtime slicing function in the emitted code"
			return c
		}
		c.queries = append(c.queries, c02Query{"args", pre() + fmt.Sprintf("(assert (not (and %s (not %s) (not %s))))\n(check-sat)\n(get-model)\n", strings.Join(conds, " "), orS(fires...), ubAny)})
	case "clslice":
		// clslice__arrptr__<T>__<ij|i|j|ijk|full>: p[i:j] on p *[10]int64, compiled from Go source by cl
		t, ok := goIntTypeOf(parts[2])
		c.fnName = "cl.compileInstrOrValue(*ssa.Slice)"
		c.oblig = fmt.Sprintf("cl.Slice/nil-check+args[container=%s,idx=%s,form=%s]", parts[1], parts[2], parts[3])
		if !ok {
			c.skip = "unknown index type"
			return c
		}
		if c.skip != "" {
			return c
		}
		if len(fn.params) == 0 || irWidth(fn.params[0]) != 64 {
			c.skip = "first parameter is not a pointer"
			return c
		}
		i64 := goIntType{"int", 64, true}
		ten := "(_ bv10 64)"
		wantI, wantJ, wantK := "(_ bv0 64)", ten, ten
		switch parts[3] {
		case "ij":
			wantI, wantJ = goConvert(t, i64, "a1"), goConvert(t, i64, "a2")
		case "i":
			wantI = goConvert(t, i64, "a1")
		case "j":
			wantJ = goConvert(t, i64, "a1")
		case "ijk":
			wantI, wantJ, wantK = goConvert(t, i64, "a1"), goConvert(t, i64, "a2"), goConvert(t, i64, "a3")
		case "full":
		default:
			c.skip = "unknown slice form"
			return c
		}
		nilFires := orS(ev.panic["AssertNilDeref"]...)
		var others []string
		for k, v := range ev.panic {
			if k != "AssertNilDeref" {
				others = append(others, v...)
			}
		}
		// Go: slicing a nil *array panics (nil dereference) at the slice expression, whatever the indices;
		// a non-nil pointer never does (the bounds are the runtime function's business).
		c.queries = append(c.queries, c02Query{"nil-check", pre() + fmt.Sprintf("(assert (not (and (= %s (= a0 (_ bv0 64))) (not %s) (not %s))))\n(check-sat)\n(get-model)\n", nilFires, orS(others...), ubAny)})
		if parts[3] != "full" {
			var conds []string
			found := false
			for _, call := range ev.calls {
				if call.name == "NewSlice3" && len(call.args) == 6 {
					found = true
					conds = append(conds,
						fmt.Sprintf("(= %s a0)", call.args[0].t),
						fmt.Sprintf("(= %s (_ bv8 64))", call.args[1].t),
						fmt.Sprintf("(= %s %s)", call.args[2].t, ten),
						fmt.Sprintf("(= %s %s)", call.args[3].t, wantI),
						fmt.Sprintf("(= %s %s)", call.args[4].t, wantJ),
						fmt.Sprintf("(= %s %s)", call.args[5].t, wantK),
						"(not "+orS(call.args[3].poison, call.args[4].poison, call.args[5].poison)+")")
				}
			}
			if !found {
				c.skip = "no call of runtime.NewSlice3 in the emitted code"
				return c
			}
			c.queries = append(c.queries, c02Query{"args", pre() + fmt.Sprintf("(assert (not (and %s)))\n(check-sat)\n(get-model)\n", strings.Join(conds, " "))})
		}
	case "clmake":
		// clmake__<chan|map>__<T>__n: make(chan int64, n) / make(map[int64]int64, n), compiled from Go source by cl
		t, ok := goIntTypeOf(parts[2])
		c.fnName = map[string]string{"chan": "ssa.Builder.MakeChan", "map": "ssa.Builder.MakeMap"}[parts[1]]
		c.oblig = fmt.Sprintf("%s/args[size=%s]", c.fnName, parts[2])
		if !ok || c.fnName == "" {
			c.skip = "unknown case"
			return c
		}
		if c.skip != "" {
			return c
		}
		rtName := map[string]string{"chan": "NewChan", "map": "MakeMap"}[parts[1]]
		i64 := goIntType{"int", 64, true}
		want := goConvert(t, i64, "a0")
		var conds []string
		found := false
		for _, call := range ev.calls {
			if call.name != rtName || len(call.args) != 2 {
				continue
			}
			found = true
			if call.args[1].w != 64 {
				// the operand reaches the run-time function in its own width: the call does not even type-check
				conds = append(conds, "false")
				continue
			}
			conds = append(conds, fmt.Sprintf("(= %s %s)", call.args[1].t, want), "(not "+orS(call.args[1].poison)+")")
			if parts[1] == "chan" {
				conds = append(conds, fmt.Sprintf("(= %s (_ bv8 64))", call.args[0].t))
			}
		}
		if !found {
			c.skip = "no call of runtime." + rtName + " in the emitted code"
			return c
		}
		c.queries = append(c.queries, c02Query{"args", pre() + fmt.Sprintf("(assert (not (and %s (not %s))))\n(check-sat)\n(get-model)\n", strings.Join(conds, " "), ubAny)})
	case "makeslice":
		// makeslice__slice__<T>__lc: make([]int64, len, cap) with len and cap of type T
		t, ok := goIntTypeOf(parts[2])
		c.fnName = "ssa.Builder.MakeSlice"
		c.oblig = fmt.Sprintf("ssa.Builder.MakeSlice/args[elem=%s,len,cap=%s]", map[string]string{"slice": "int64", "zslice": "struct{}"}[parts[1]], parts[2])
		esz := map[string]int{"slice": 8, "zslice": 0}[parts[1]]
		if !ok {
			c.skip = "unknown size type"
			return c
		}
		if c.skip != "" {
			return c
		}
		i64 := goIntType{"int", 64, true}
		wantL, wantC := goConvert(t, i64, "a0"), goConvert(t, i64, "a1")
		var conds []string
		found := false
		for _, call := range ev.calls {
			if call.name == "MakeSlice" && len(call.args) == 3 {
				found = true
				conds = append(conds,
					fmt.Sprintf("(= %s %s)", call.args[0].t, wantL),
					fmt.Sprintf("(= %s %s)", call.args[1].t, wantC),
					fmt.Sprintf("(= %s (_ bv%d 64))", call.args[2].t, esz),
					"(not "+orS(call.args[0].poison, call.args[1].poison)+")")
			}
		}
		if !found {
			c.skip = "no call of runtime.MakeSlice in the emitted code"
			return c
		}
		c.queries = append(c.queries, c02Query{"args", pre() + fmt.Sprintf("(assert (not (and %s (not %s) (not %s))))\n(check-sat)\n(get-model)\n", strings.Join(conds, " "), orS(fires...), ubAny)})
	default:
		c.skip = "unknown case kind"
	}
	return c
}

func c03CompilerGoals(ck *Checker, rep *Report, opts *Options) []*Goal {
	if opts.OnlyFn != "" && !strings.Contains("ssa.Builder.IndexAddr Index Slice ssa.Builder.TypeAssert ssa.Builder.MakeSlice ssa.Builder.MakeChan ssa.Builder.MakeMap cl.compileInstrOrValue(*ssa.Slice)", opts.OnlyFn) {
		return nil
	}
	text, err := RunC02Harness(opts, "c03_emit_test.go", "c03")
	if err != nil {
		rep.Broken = append(rep.Broken, err.Error())
		return nil
	}
	ck.E.Trusted["LLVM LangRef semantics of the emitted instructions (c02.go); LLVM passes/back ends preserve them"] = true
	seen := map[string]bool{}
	var goals []*Goal
	n := 0
	for _, fn := range parseIR(text) {
		if !strings.Contains(fn.name, "__") {
			continue
		}
		c := buildC03Case(fn)
		if c.oblig == "" {
			continue
		}
		n++
		if !seen[c.fnName] {
			seen[c.fnName] = true
			rep.Funcs = append(rep.Funcs, c.fnName)
		}
		if c.skip != "" {
			goals = append(goals, &Goal{Oblig: c.oblig, Fn: c.fnName, Goal: False, Expect: "unsat", Detail: c.skip, Raw: "(set-logic ALL)\n(check-sat)\n; not checkable: " + c.skip + "\n"})
			continue
		}
		for _, q := range c.queries {
			g := &Goal{Oblig: c.oblig, Fn: c.fnName, Goal: False, Expect: "unsat", Detail: fn.name + "/" + q.suffix, Raw: q.smt}
			if strings.HasPrefix(fn.name, "clslice__") && q.suffix == "nil-check" {
				fn := fn
				g.Replay = func(model string, o *Options) (map[string]interface{}, bool) { return c03ClSliceReplay(fn, model, o) }
			}
			goals = append(goals, g)
		}
	}
	rep.Extra["compiler_side_cases"] = n
	goals = append(goals, c03TypeAssertGoals(text, rep)...)
	if n < 150 {
		rep.Broken = append(rep.Broken, fmt.Sprintf("C03 emission harness produced only %d cases", n))
	}
	return goals
}

// c03ClSliceReplay runs the emitted code of one clslice case under lli at the
// model's operands (run-time functions replaced by printing stubs) and the same
// Go slice expression under the host toolchain; confirmed when exactly one of
// the two raises the nil-dereference panic.
func c03ClSliceReplay(fn *irFunc, model string, opts *Options) (map[string]interface{}, bool) {
	parts := strings.Split(fn.name, "__")
	if len(parts) != 4 {
		return nil, false
	}
	t, ok := goIntTypeOf(parts[2])
	if !ok {
		return nil, false
	}
	doc := map[string]interface{}{"case": fn.name, "emitted_ir": fn.text}
	mv := modelValues(model)
	val := func(name string) *big.Int {
		if s, ok := mv[name]; ok && s.list == nil {
			if v, ok := rpBvLit(s.atom); ok {
				return v
			}
		}
		return big.NewInt(0)
	}
	isNil := val("a0").Sign() == 0
	dir := filepath.Join(opts.Scratch, "c03", "replay-"+mangle(fn.name))
	os.MkdirAll(dir, 0o755)
	const rt = "github.com/goplus/llgo/runtime/internal/runtime."
	var ll strings.Builder
	ll.WriteString("%\"" + rt + "Slice\" = type { i8*, i64, i64 }\n")
	ll.WriteString("declare i32 @printf(i8*, ...)\ndeclare void @exit(i32)\n@arr = global [10 x i64] zeroinitializer\n")
	ll.WriteString("@pan = private constant [10 x i8] c\"NILPANIC\\0A\\00\"\n@idx = private constant [12 x i8] c\"INDEXPANIC\\0A\\00\"\n@ns3 = private constant [40 x i8] c\"NewSlice3 nilbase=%d lo=%lld hi=%lld\\0A\\00\\00\\00\"\n")
	ll.WriteString("define void @\"" + rt + "AssertNilDeref\"(i1 %c) {\n  br i1 %c, label %p, label %ok\np:\n  %1 = call i32 (i8*, ...) @printf(i8* getelementptr inbounds ([10 x i8], [10 x i8]* @pan, i32 0, i32 0))\n  call void @exit(i32 0)\n  unreachable\nok:\n  ret void\n}\n")
	ll.WriteString("define void @\"" + rt + "AssertIndexRange\"(i1 %c) {\n  br i1 %c, label %p, label %ok\np:\n  %1 = call i32 (i8*, ...) @printf(i8* getelementptr inbounds ([12 x i8], [12 x i8]* @idx, i32 0, i32 0))\n  call void @exit(i32 0)\n  unreachable\nok:\n  ret void\n}\n")
	ll.WriteString("define %\"" + rt + "Slice\" @\"" + rt + "NewSlice3\"(i8* %b, i64 %e, i64 %c, i64 %lo, i64 %hi, i64 %mx) {\n  %n = icmp eq i8* %b, null\n  %nz = zext i1 %n to i32\n  %1 = call i32 (i8*, ...) @printf(i8* getelementptr inbounds ([40 x i8], [40 x i8]* @ns3, i32 0, i32 0), i32 %nz, i64 %lo, i64 %hi)\n  ret %\"" + rt + "Slice\" undef\n}\n")
	ll.WriteString(strings.ReplaceAll(fn.text, "[10 x i64]*", "i8*"))
	base := "i8* bitcast ([10 x i64]* @arr to i8*)"
	if isNil {
		base = "i8* null"
	}
	args := []string{base}
	var goArgs []string
	for i := 1; i < len(fn.params); i++ {
		v := val(fmt.Sprintf("a%d", i))
		args = append(args, fmt.Sprintf("%s %s", fn.params[i], v.String()))
		x := new(big.Int).Set(v)
		if t.signed && x.Bit(t.w-1) == 1 {
			x.Sub(x, new(big.Int).Lsh(big.NewInt(1), uint(t.w)))
		}
		goArgs = append(goArgs, x.String())
	}
	fmt.Fprintf(&ll, "define i32 @main() {\n  %%r = call %%\"%sSlice\" @\"%s\"(%s)\n  ret i32 0\n}\n", rt, fn.name, strings.Join(args, ", "))
	doc["operands"] = args
	llFile := filepath.Join(dir, "case.ll")
	os.WriteFile(llFile, []byte(ll.String()), 0o644)
	out, err := exec.Command("lli-14", llFile).CombinedOutput()
	got := strings.TrimSpace(string(out))
	if err != nil {
		doc["error"] = "lli: " + err.Error() + " " + truncate(got, 500)
		return doc, false
	}
	if got == "" {
		got = "returned without calling a run-time function"
	}
	doc["emitted_code_result"] = got
	// the same slice expression under the host Go toolchain
	var expr string
	switch parts[3] {
	case "ij":
		expr = "p[i0:i1]"
	case "i":
		expr = "p[i0:]"
	case "j":
		expr = "p[:i0]"
	case "ijk":
		expr = "p[i0:i1:i2]"
	case "full":
		expr = "p[:]"
	default:
		return nil, false
	}
	var gs strings.Builder
	gs.WriteString("package main\n\nimport \"fmt\"\n\nvar arr [10]int64\n\nfunc main() {\n\tdefer func() {\n\t\tif e := recover(); e != nil {\n\t\t\tfmt.Println(\"PANIC:\", e)\n\t\t}\n\t}()\n")
	if isNil {
		gs.WriteString("\tvar p *[10]int64\n")
	} else {
		gs.WriteString("\tp := &arr\n")
	}
	for i, a := range goArgs {
		fmt.Fprintf(&gs, "\tvar i%d %s = %s\n", i, parts[2], a)
	}
	fmt.Fprintf(&gs, "\ts := %s\n\tfmt.Println(\"no panic, len\", len(s), \"cap\", cap(s))\n}\n", expr)
	os.WriteFile(filepath.Join(dir, "main.go"), []byte(gs.String()), 0o644)
	doc["go_program"] = gs.String()
	goBin := os.Getenv("GO")
	if goBin == "" {
		goBin = "go"
	}
	cmd := exec.Command(goBin, "run", "main.go")
	cmd.Dir = dir
	cmd.Env = append(os.Environ(), "GOFLAGS=-mod=mod", "GO111MODULE=off")
	gout, gerr := cmd.CombinedOutput()
	want := strings.TrimSpace(string(gout))
	if gerr != nil {
		doc["error"] = "go run: " + gerr.Error() + " " + truncate(want, 500)
		return doc, false
	}
	doc["go_result"] = want
	goNil := strings.Contains(want, "nil pointer dereference")
	llNil := strings.Contains(got, "NILPANIC")
	return doc, goNil != llNil
}
