package vc

import (
	"fmt"
	"math/big"
	"strings"
)

// ---------------------------------------------------------------------------
// Sorts and terms. Terms are SMT-LIB 2 strings with a sort and (for
// bit-vectors) the Go signedness that decides which comparison / extension /
// division operator a Go-level operation maps to.

type SortKind int

const (
	KBool SortKind = iota
	KBV
	KFP
	KArray
	KInt // mathematical integers (only inside specs / quantifier bounds)
)

type Sort struct {
	K      SortKind
	W      int // BV width, or total FP width (32/64)
	Idx    *Sort
	Elem   *Sort
	Signed bool // Go signedness of a BV value (not part of the SMT sort)
}

func BoolSort() Sort              { return Sort{K: KBool} }
func BV(w int, signed bool) Sort  { return Sort{K: KBV, W: w, Signed: signed} }
func FPSort(w int) Sort           { return Sort{K: KFP, W: w} }
func ArraySort(idx, el Sort) Sort { return Sort{K: KArray, Idx: &idx, Elem: &el} }

func (s Sort) SMT() string {
	switch s.K {
	case KBool:
		return "Bool"
	case KBV:
		return fmt.Sprintf("(_ BitVec %d)", s.W)
	case KFP:
		if s.W == 32 {
			return "(_ FloatingPoint 8 24)"
		}
		return "(_ FloatingPoint 11 53)"
	case KArray:
		return fmt.Sprintf("(Array %s %s)", s.Idx.SMT(), s.Elem.SMT())
	case KInt:
		return "Int"
	}
	return "?"
}

func (s Sort) SameSMT(o Sort) bool { return s.SMT() == o.SMT() }

type Term struct {
	S    string
	Sort Sort
}

func (t Term) String() string { return t.S }

var (
	True  = Term{"true", BoolSort()}
	False = Term{"false", BoolSort()}
)

func BVConst(v *big.Int, w int, signed bool) Term {
	m := new(big.Int).Lsh(big.NewInt(1), uint(w))
	x := new(big.Int).Mod(v, m)
	if x.Sign() < 0 {
		x.Add(x, m)
	}
	return Term{fmt.Sprintf("(_ bv%s %d)", x.String(), w), BV(w, signed)}
}

func BVInt(v int64, w int, signed bool) Term { return BVConst(big.NewInt(v), w, signed) }

// constVal returns the numeric value of a literal bit-vector term.
func constVal(t Term) (*big.Int, bool) {
	if t.Sort.K != KBV || !strings.HasPrefix(t.S, "(_ bv") {
		return nil, false
	}
	rest := t.S[5:]
	i := strings.IndexByte(rest, ' ')
	if i < 0 {
		return nil, false
	}
	v, ok := new(big.Int).SetString(rest[:i], 10)
	return v, ok
}

func app(op string, args ...Term) string {
	var sb strings.Builder
	sb.WriteByte('(')
	sb.WriteString(op)
	for _, a := range args {
		sb.WriteByte(' ')
		sb.WriteString(a.S)
	}
	sb.WriteByte(')')
	return sb.String()
}

func Not(a Term) Term {
	switch a.S {
	case "true":
		return False
	case "false":
		return True
	}
	if strings.HasPrefix(a.S, "(not ") {
		return Term{a.S[5 : len(a.S)-1], BoolSort()}
	}
	return Term{app("not", a), BoolSort()}
}

func And(ts ...Term) Term {
	var out []Term
	for _, t := range ts {
		if t.S == "true" {
			continue
		}
		if t.S == "false" {
			return False
		}
		out = append(out, t)
	}
	switch len(out) {
	case 0:
		return True
	case 1:
		return out[0]
	}
	return Term{app("and", out...), BoolSort()}
}

func Or(ts ...Term) Term {
	var out []Term
	for _, t := range ts {
		if t.S == "false" {
			continue
		}
		if t.S == "true" {
			return True
		}
		out = append(out, t)
	}
	switch len(out) {
	case 0:
		return False
	case 1:
		return out[0]
	}
	return Term{app("or", out...), BoolSort()}
}

func Implies(a, b Term) Term {
	if a.S == "true" {
		return b
	}
	if a.S == "false" || b.S == "true" {
		return True
	}
	return Term{app("=>", a, b), BoolSort()}
}

func Eq(a, b Term) Term {
	if a.S == b.S {
		return True
	}
	if a.Sort.K == KFP {
		// Go == on floats is IEEE equality.
		return Term{app("fp.eq", a, b), BoolSort()}
	}
	if av, ok := constVal(a); ok {
		if bv, ok2 := constVal(b); ok2 {
			if av.Cmp(bv) == 0 {
				return True
			}
			return False
		}
	}
	return Term{app("=", a, b), BoolSort()}
}

// StructEq is bitwise/structural identity (used for specs on FP bits etc).
func Ident(a, b Term) Term {
	if a.S == b.S {
		return True
	}
	return Term{app("=", a, b), BoolSort()}
}

func Ite(c, a, b Term) Term {
	if c.S == "true" {
		return a
	}
	if c.S == "false" {
		return b
	}
	if a.S == b.S {
		return a
	}
	return Term{app("ite", c, a, b), a.Sort}
}

func Select(arr, idx Term) Term {
	return Term{app("select", arr, idx), *arr.Sort.Elem}
}

func Store(arr, idx, v Term) Term {
	return Term{app("store", arr, idx, v), arr.Sort}
}

// Resize converts a bit-vector to width w using the signedness of the SOURCE
// (Go conversion semantics); the result carries signedness `signed`.
func Resize(t Term, w int, signed bool) Term {
	if t.Sort.K != KBV {
		panic("Resize of non-BV " + t.S)
	}
	if v, ok := constVal(t); ok {
		x := new(big.Int).Set(v)
		if t.Sort.Signed && x.Bit(t.Sort.W-1) == 1 {
			x.Sub(x, new(big.Int).Lsh(big.NewInt(1), uint(t.Sort.W)))
		}
		return BVConst(x, w, signed)
	}
	switch {
	case w == t.Sort.W:
		return Term{t.S, BV(w, signed)}
	case w < t.Sort.W:
		return Term{fmt.Sprintf("((_ extract %d 0) %s)", w-1, t.S), BV(w, signed)}
	case t.Sort.Signed:
		return Term{fmt.Sprintf("((_ sign_extend %d) %s)", w-t.Sort.W, t.S), BV(w, signed)}
	default:
		return Term{fmt.Sprintf("((_ zero_extend %d) %s)", w-t.Sort.W, t.S), BV(w, signed)}
	}
}

// Abstraction switches (DESIGN §2.3): symbolic×symbolic multiplication and all
// division/remainder are uninterpreted functions with the same symbol on the
// spec side and the implementation side.
type ArithMode struct {
	AbstractMul bool
	AbstractDiv bool
}

var Arith = ArithMode{AbstractMul: true, AbstractDiv: true}

func bvBin(op string, a, b Term) Term {
	return Term{app(op, a, b), a.Sort}
}

func foldBin(a, b Term, f func(x, y *big.Int) *big.Int) (Term, bool) {
	av, ok := constVal(a)
	if !ok {
		return Term{}, false
	}
	bv, ok := constVal(b)
	if !ok {
		return Term{}, false
	}
	return BVConst(f(av, bv), a.Sort.W, a.Sort.Signed), true
}

func Add(a, b Term) Term {
	if t, ok := foldBin(a, b, func(x, y *big.Int) *big.Int { return new(big.Int).Add(x, y) }); ok {
		return t
	}
	if v, ok := constVal(b); ok && v.Sign() == 0 {
		return a
	}
	if v, ok := constVal(a); ok && v.Sign() == 0 {
		return Term{b.S, a.Sort}
	}
	return bvBin("bvadd", a, b)
}

func Sub(a, b Term) Term {
	if t, ok := foldBin(a, b, func(x, y *big.Int) *big.Int { return new(big.Int).Sub(x, y) }); ok {
		return t
	}
	if v, ok := constVal(b); ok && v.Sign() == 0 {
		return a
	}
	return bvBin("bvsub", a, b)
}

func Mul(a, b Term) Term {
	if t, ok := foldBin(a, b, func(x, y *big.Int) *big.Int { return new(big.Int).Mul(x, y) }); ok {
		return t
	}
	_, ac := constVal(a)
	bvv, bc := constVal(b)
	if bc && bvv.Cmp(big.NewInt(1)) == 0 {
		return a
	}
	if av, _ := constVal(a); ac && av.Cmp(big.NewInt(1)) == 0 {
		return Term{b.S, a.Sort}
	}
	if Arith.AbstractMul && !ac && !bc {
		x, y := a, b
		if x.S > y.S { // commutativity by normalisation
			x, y = y, x
		}
		return Term{fmt.Sprintf("(umul%d %s %s)", a.Sort.W, x.S, y.S), a.Sort}
	}
	return bvBin("bvmul", a, b)
}

// Div / Rem implement the *total* SMT-level operator; Go's panic on zero and
// the minInt/-1 case are handled by the caller (Go semantics: minInt / -1 ==
// minInt, minInt % -1 == 0, which is also what bvsdiv/bvsrem give).
func Div(a, b Term) Term {
	op := "bvudiv"
	uf := "uudiv"
	if a.Sort.Signed {
		op, uf = "bvsdiv", "usdiv"
	}
	if Arith.AbstractDiv {
		return Term{fmt.Sprintf("(%s%d %s %s)", uf, a.Sort.W, a.S, b.S), a.Sort}
	}
	return bvBin(op, a, b)
}

func Rem(a, b Term) Term {
	op := "bvurem"
	uf := "uurem"
	if a.Sort.Signed {
		op, uf = "bvsrem", "usrem"
	}
	if Arith.AbstractDiv {
		return Term{fmt.Sprintf("(%s%d %s %s)", uf, a.Sort.W, a.S, b.S), a.Sort}
	}
	return bvBin(op, a, b)
}

func Lt(a, b Term) Term {
	if a.Sort.K == KFP {
		return Term{app("fp.lt", a, b), BoolSort()}
	}
	if a.Sort.K == KInt {
		return Term{app("<", a, b), BoolSort()}
	}
	if av, ok := constVal(a); ok {
		if bv, ok2 := constVal(b); ok2 {
			x, y := toSigned(av, a.Sort), toSigned(bv, a.Sort)
			if x.Cmp(y) < 0 {
				return True
			}
			return False
		}
	}
	if a.Sort.Signed {
		return Term{app("bvslt", a, b), BoolSort()}
	}
	return Term{app("bvult", a, b), BoolSort()}
}

func Le(a, b Term) Term {
	if a.Sort.K == KFP {
		return Term{app("fp.leq", a, b), BoolSort()}
	}
	if a.Sort.K == KInt {
		return Term{app("<=", a, b), BoolSort()}
	}
	if av, ok := constVal(a); ok {
		if bv, ok2 := constVal(b); ok2 {
			x, y := toSigned(av, a.Sort), toSigned(bv, a.Sort)
			if x.Cmp(y) <= 0 {
				return True
			}
			return False
		}
	}
	if a.Sort.Signed {
		return Term{app("bvsle", a, b), BoolSort()}
	}
	return Term{app("bvule", a, b), BoolSort()}
}

func toSigned(v *big.Int, s Sort) *big.Int {
	x := new(big.Int).Set(v)
	if s.Signed && x.Bit(s.W-1) == 1 {
		x.Sub(x, new(big.Int).Lsh(big.NewInt(1), uint(s.W)))
	}
	return x
}

// Shl/Shr with Go semantics: count is an unsigned value of ANY width (already
// known non-negative); result saturates for count >= width.
func goShiftCount(x, cnt Term) (inRange Term, c Term) {
	w := x.Sort.W
	cu := Term{cnt.S, BV(cnt.Sort.W, false)}
	inRange = Lt(cu, BVInt(int64(w), cnt.Sort.W, false))
	if cnt.Sort.W < 8 {
		inRange = True
	}
	c = Resize(cu, w, false)
	c.Sort.Signed = x.Sort.Signed
	return
}

func Shl(x, cnt Term) Term {
	in, c := goShiftCount(x, cnt)
	return Ite(in, bvBin("bvshl", x, c), BVInt(0, x.Sort.W, x.Sort.Signed))
}

func Shr(x, cnt Term) Term {
	in, c := goShiftCount(x, cnt)
	if x.Sort.Signed {
		return Ite(in, bvBin("bvashr", x, c), bvBin("bvashr", x, BVInt(int64(x.Sort.W-1), x.Sort.W, true)))
	}
	return Ite(in, bvBin("bvlshr", x, c), BVInt(0, x.Sort.W, false))
}

func Forall(vars []Term, body Term) Term {
	if len(vars) == 0 || body.S == "true" {
		return body
	}
	var sb strings.Builder
	sb.WriteString("(forall (")
	for _, v := range vars {
		fmt.Fprintf(&sb, "(%s %s)", v.S, v.Sort.SMT())
	}
	sb.WriteString(") ")
	sb.WriteString(body.S)
	sb.WriteString(")")
	return Term{sb.String(), BoolSort()}
}

func Exists(vars []Term, body Term) Term {
	var sb strings.Builder
	sb.WriteString("(exists (")
	for _, v := range vars {
		fmt.Fprintf(&sb, "(%s %s)", v.S, v.Sort.SMT())
	}
	sb.WriteString(") ")
	sb.WriteString(body.S)
	sb.WriteString(")")
	return Term{sb.String(), BoolSort()}
}

// mangle makes an identifier safe as an SMT-LIB symbol (and never a reserved
// word: every generated symbol gets a prefix).
func mangle(s string) string {
	var sb strings.Builder
	for _, r := range s {
		switch {
		case r >= 'a' && r <= 'z', r >= 'A' && r <= 'Z', r >= '0' && r <= '9', r == '_':
			sb.WriteRune(r)
		default:
			sb.WriteByte('_')
		}
	}
	return sb.String()
}
