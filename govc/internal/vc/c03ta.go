package vc

// Compiler side of type assertions (C03: a failed x.(T) must panic; C07: the
// assertion succeeds exactly when the dynamic type matches).
//
// Contract of ssa.Builder.TypeAssert, per compile-time case (operand
// representation x asserted-type kind x comma-ok or not) and for ALL run-time
// operands:
//     matches  :=  kind same      : dyn != nil
//                  kind iface     : runtime.Implements(desc(T), dyn)
//                  kind closure   : runtime.MatchesClosure(desc(T), dyn)
//                  kind concrete  : dyn == desc(T)
//     where dyn = type word of an empty-interface operand, or
//                 runtime.IfaceType(x) for a non-empty-interface operand
//     v, ok := x.(T):  ok == matches, and no panic on either path
//     x.(T)         :  runtime.Panic is called  <=>  !matches
//
// The real function is executed on an LLVM parameter (staged symbolic
// execution, as for C02); the emitted control-flow graph is evaluated
// symbolically: run-time functions are uninterpreted, descriptors are distinct
// symbolic constants, the branch condition of the entry block is compared with
// `matches` by SMT, and the two successor paths are classified (panic /
// ok=true / ok=false). The run-time functions themselves are verified under
// C07 (Implements) or trusted (IfaceType, MatchesClosure).

import (
	"fmt"
	"regexp"
	"sort"
	"strings"
)

type taBlock struct {
	label string
	lines []string
}

var (
	reTAInfo  = regexp.MustCompile(`(?m)^; ZZTA fn=(\S+) kind=(\S+) src=(\S+) desc=(\S+)$`)
	reTALabel = regexp.MustCompile(`^([\w.$]+):`)
	reTABr    = regexp.MustCompile(`^br i1 (%[\w.]+), label %([\w.$]+), label %([\w.$]+)`)
	reTADef   = regexp.MustCompile(`^(%[\w.]+) = (.*)$`)
	reTAGlob  = regexp.MustCompile(`@"?([^",\s()]+)"?`)
)

// taFunctionText returns the body text of the named function.
func taFunctionText(text, name string) string {
	i := strings.Index(text, "@"+name+"(")
	if i < 0 {
		return ""
	}
	j := strings.Index(text[i:], "\n}\n")
	if j < 0 {
		return ""
	}
	return text[i : i+j]
}

func taBlocks(body string) []taBlock {
	var bs []taBlock
	for _, l := range strings.Split(body, "\n")[1:] {
		t := strings.TrimSpace(l)
		if t == "" {
			continue
		}
		if m := reTALabel.FindStringSubmatch(t); m != nil && !strings.HasPrefix(t, "%") {
			bs = append(bs, taBlock{label: m[1]})
			continue
		}
		if len(bs) == 0 {
			bs = append(bs, taBlock{label: "entry"})
		}
		bs[len(bs)-1].lines = append(bs[len(bs)-1].lines, t)
	}
	return bs
}

// splitArgs splits a call's argument list at top-level commas.
func splitArgs(s string) []string {
	var out []string
	depth, start := 0, 0
	inq := false
	for i := 0; i < len(s); i++ {
		switch s[i] {
		case '"':
			inq = !inq
		case '(', '{', '[':
			if !inq {
				depth++
			}
		case ')', '}', ']':
			if !inq {
				depth--
			}
		case ',':
			if !inq && depth == 0 {
				out = append(out, strings.TrimSpace(s[start:i]))
				start = i + 1
			}
		}
	}
	if strings.TrimSpace(s[start:]) != "" {
		out = append(out, strings.TrimSpace(s[start:]))
	}
	return out
}

type taEval struct {
	defs  map[string]string
	decls map[string]string // SMT declarations
	err   string
}

// operandTerm: the SMT term (64-bit pointer word) of an operand as written in
// an argument list or icmp ("<type> <value>" or just "<value>").
func (e *taEval) operandTerm(arg string) string {
	arg = strings.TrimSpace(arg)
	// "<type> %N" or "%N": a local value
	if m := regexp.MustCompile(`(?:^|\s)(%[0-9]+)$`).FindStringSubmatch(arg); m != nil {
		return e.valueTerm(m[1])
	}
	if strings.HasSuffix(arg, " null") || arg == "null" {
		return "(_ bv0 64)"
	}
	if ms := reTAGlob.FindAllStringSubmatch(arg, -1); len(ms) > 0 {
		// the LAST global named in the expression is the object whose address is taken
		g := "g_" + mangle(ms[len(ms)-1][1])
		e.decls[g] = fmt.Sprintf("(declare-const %s (_ BitVec 64))\n(assert (not (= %s (_ bv0 64))))\n", g, g)
		return g
	}
	e.err = "unsupported operand: " + truncate(arg, 120)
	return "(_ bv0 64)"
}

func (e *taEval) valueTerm(v string) string {
	if v == "%0" {
		return "" // the interface operand itself is only used through field/IfaceType
	}
	rhs, ok := e.defs[v]
	if !ok {
		e.err = "unknown value " + v
		return "(_ bv0 64)"
	}
	switch {
	case strings.HasPrefix(rhs, "extractvalue "):
		// extractvalue <type> %0, k
		f := splitArgs(rhs[len("extractvalue "):])
		if len(f) == 2 && strings.HasSuffix(f[0], " %0") {
			n := "x_field" + f[1]
			e.decls[n] = fmt.Sprintf("(declare-const %s (_ BitVec 64))\n", n)
			return n
		}
	case strings.HasPrefix(rhs, "call "):
		i := strings.Index(rhs, "@")
		j := strings.Index(rhs[i:], "(") + i
		name := strings.Trim(rhs[i+1:j], `"`)
		short := name[strings.LastIndex(name, ".")+1:]
		args := splitArgs(rhs[j+1 : strings.LastIndex(rhs, ")")])
		var ts []string
		for _, a := range args {
			if strings.HasSuffix(a, " %0") {
				ts = append(ts, "x_iface")
				e.decls["x_iface"] = "(declare-const x_iface (_ BitVec 64))\n"
				continue
			}
			ts = append(ts, e.operandTerm(a))
		}
		fn := "rt_" + mangle(short)
		sig := strings.TrimSpace(strings.Repeat("(_ BitVec 64) ", len(ts)))
		ret := "(_ BitVec 64)"
		if strings.HasPrefix(rhs, "call i1 ") {
			ret = "Bool"
		}
		e.decls[fn] = fmt.Sprintf("(declare-fun %s (%s) %s)\n", fn, sig, ret)
		return "(" + fn + " " + strings.Join(ts, " ") + ")"
	case strings.HasPrefix(rhs, "icmp "):
		f := strings.SplitN(rhs, " ", 3)
		ops := splitArgs(f[2])
		if len(ops) == 2 {
			a, b := e.operandTerm(ops[0]), e.operandTerm(ops[1])
			switch f[1] {
			case "eq":
				return "(= " + a + " " + b + ")"
			case "ne":
				return "(not (= " + a + " " + b + "))"
			}
		}
	}
	e.err = "unsupported definition of " + v + ": " + truncate(rhs, 160)
	return "(_ bv0 64)"
}

func c03TypeAssertGoals(text string, rep *Report) []*Goal {
	var goals []*Goal
	infos := reTAInfo.FindAllStringSubmatch(text, -1)
	fnName := "ssa.Builder.TypeAssert"
	if len(infos) > 0 {
		rep.Funcs = append(rep.Funcs, fnName)
	}
	for _, m := range infos {
		name, kind, src, desc := m[1], m[2], m[3], m[4]
		parts := strings.Split(name, "__")
		oblig := fmt.Sprintf("%s/matches-iff[src=%s,dst=%s,%s]", fnName, parts[1], parts[2], map[string]string{"ok": "comma-ok", "must": "panicking"}[parts[3]])
		fail := func(why string) {
			goals = append(goals, &Goal{Oblig: oblig, Fn: fnName, Goal: False, Expect: "unsat", Detail: why,
				Raw: "(set-logic ALL)\n(check-sat)\n; " + strings.ReplaceAll(why, "\n", " ") + "\n"})
		}
		body := taFunctionText(text, name)
		if body == "" {
			fail("emitted function not found")
			continue
		}
		bs := taBlocks(body)
		if len(bs) < 3 {
			fail("emitted code has no two-way branch on the match condition")
			continue
		}
		ev := &taEval{defs: map[string]string{}, decls: map[string]string{}}
		var br []string
		for _, l := range bs[0].lines {
			if d := reTADef.FindStringSubmatch(l); d != nil {
				ev.defs[d[1]] = d[2]
			}
			if b := reTABr.FindStringSubmatch(l); b != nil {
				br = b
			}
		}
		if br == nil {
			fail("entry block does not end in a conditional branch")
			continue
		}
		cond := ev.valueTerm(br[1])
		// the specification's `matches`
		var dyn string
		if src == "eface" {
			dyn = "x_field0"
			ev.decls[dyn] = "(declare-const x_field0 (_ BitVec 64))\n"
		} else {
			ev.decls["x_iface"] = "(declare-const x_iface (_ BitVec 64))\n"
			ev.decls["rt_IfaceType"] = "(declare-fun rt_IfaceType ((_ BitVec 64)) (_ BitVec 64))\n"
			dyn = "(rt_IfaceType x_iface)"
		}
		g := "g_" + mangle(desc)
		ev.decls[g] = fmt.Sprintf("(declare-const %s (_ BitVec 64))\n(assert (not (= %s (_ bv0 64))))\n", g, g)
		var spec string
		switch kind {
		case "same":
			spec = "(not (= " + dyn + " (_ bv0 64)))"
		case "iface":
			ev.decls["rt_Implements"] = "(declare-fun rt_Implements ((_ BitVec 64) (_ BitVec 64)) Bool)\n"
			spec = "(rt_Implements " + g + " " + dyn + ")"
		case "closure":
			ev.decls["rt_MatchesClosure"] = "(declare-fun rt_MatchesClosure ((_ BitVec 64) (_ BitVec 64)) Bool)\n"
			spec = "(rt_MatchesClosure " + g + " " + dyn + ")"
		case "concrete":
			spec = "(= " + dyn + " " + g + ")"
		default:
			fail("unknown case kind " + kind)
			continue
		}
		if ev.err != "" {
			fail("entry block not understood: " + ev.err)
			continue
		}
		var names []string
		for k := range ev.decls {
			names = append(names, k)
		}
		sort.Strings(names)
		var sb strings.Builder
		sb.WriteString("(set-logic ALL)\n")
		// functions before the constants that use them does not matter in SMT-LIB; keep deterministic
		for _, k := range names {
			sb.WriteString(ev.decls[k])
		}
		fmt.Fprintf(&sb, "; branch condition of the emitted entry block vs the specification's `matches`\n(assert (not (= %s %s)))\n(check-sat)\n(get-model)\n", cond, spec)
		goals = append(goals, &Goal{Oblig: oblig, Fn: fnName, Goal: False, Expect: "unsat", Detail: name + "/condition", Raw: sb.String()})
		// classification of the two successors
		blk := map[string]taBlock{}
		for _, b := range bs {
			blk[b.label] = b
		}
		panics := func(b taBlock) bool {
			for _, l := range b.lines {
				if strings.Contains(l, "runtime.Panic\"(") {
					return true
				}
			}
			return false
		}
		last := func(b taBlock) string {
			if len(b.lines) == 0 {
				return ""
			}
			return b.lines[len(b.lines)-1]
		}
		yes, no := blk[br[2]], blk[br[3]]
		shape := ""
		switch parts[3] {
		case "must":
			if panics(yes) {
				shape = "the success path calls runtime.Panic"
			} else if !panics(no) || last(no) != "unreachable" {
				shape = "the failure path does not end in a call of runtime.Panic"
			}
		case "ok":
			if panics(yes) || panics(no) {
				shape = "a comma-ok assertion must not panic"
				break
			}
			// both paths join in a phi whose incoming values carry ok=true / ok=false
			var phi string
			for _, b := range bs {
				for _, l := range b.lines {
					if strings.Contains(l, "= phi ") {
						phi = l
					}
				}
			}
			okOf := func(from taBlock) string {
				i := strings.Index(phi, ", %"+from.label+" ]")
				if i < 0 {
					return "?"
				}
				j := strings.LastIndex(phi[:i], "[")
				v := strings.TrimSpace(phi[j+1 : i])
				if v == "zeroinitializer" {
					return "false"
				}
				for _, l := range from.lines {
					if d := reTADef.FindStringSubmatch(l); d != nil && d[1] == v {
						switch {
						case strings.HasSuffix(d[2], "i1 true, 1"):
							return "true"
						case strings.HasSuffix(d[2], "i1 false, 1"):
							return "false"
						}
					}
				}
				return "?"
			}
			if phi == "" {
				shape = "no join of the two paths found"
			} else if a, b := okOf(yes), okOf(no); a != "true" || b != "false" {
				shape = fmt.Sprintf("ok is %s on the success path and %s on the failure path", a, b)
			}
		}
		q := "(set-logic ALL)\n(assert false)\n(check-sat)\n"
		if shape != "" {
			q = "(set-logic ALL)\n(assert true)\n(check-sat)\n; " + shape + "\n"
		}
		goals = append(goals, &Goal{Oblig: oblig, Fn: fnName, Goal: False, Expect: "unsat", Detail: name + "/paths: " + shape, Raw: q})
	}
	rep.Extra["type_assertion_cases"] = len(infos)
	if len(infos) < 60 {
		rep.Broken = append(rep.Broken, fmt.Sprintf("C03 emission harness produced only %d type-assertion cases", len(infos)))
	}
	return goals
}
