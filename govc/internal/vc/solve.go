package vc

import (
	"bytes"
	"context"
	"crypto/sha256"
	"fmt"
	"os"
	"os/exec"
	"path/filepath"
	"strings"
	"sync"
	"time"
)

// ---------------------------------------------------------------------------
// SMT back ends: z3-new (5.x), z3 (4.8.12), cvc5 — raced per query.

type SolveResult struct {
	Status  string // unsat | sat | unknown | timeout | error
	Solver  string
	Seconds float64
	Model   string
	Output  string
	File    string
}

type Solver struct {
	Dir      string
	Timeout  time.Duration
	Quick    time.Duration // first-stage (single solver) timeout
	mu       sync.Mutex
	cache    map[string]*SolveResult
	Stats    map[string]int     // solver -> number of decided queries
	Time     map[string]float64 // solver -> seconds spent on decided queries
	KeepSMT  bool
	Queries  int
	Parallel chan struct{}
}

func NewSolver(dir string, timeout time.Duration, par int) *Solver {
	os.MkdirAll(dir, 0o755)
	return &Solver{Dir: dir, Timeout: timeout, Quick: 3 * time.Second, cache: map[string]*SolveResult{},
		Stats: map[string]int{}, Time: map[string]float64{}, Parallel: make(chan struct{}, par)}
}

func ufDecls() string {
	var sb strings.Builder
	for _, w := range []int{8, 16, 32, 64} {
		bv := fmt.Sprintf("(_ BitVec %d)", w)
		for _, f := range []string{"umul", "usdiv", "uudiv", "usrem", "uurem"} {
			fmt.Fprintf(&sb, "(declare-fun %s%d (%s %s) %s)\n", f, w, bv, bv, bv)
		}
		fmt.Fprintf(&sb, "(declare-fun umulovf%d (%s %s) Bool)\n", w, bv, bv)
	}
	sb.WriteString("(declare-fun ufpmul32 ((_ FloatingPoint 8 24) (_ FloatingPoint 8 24)) (_ FloatingPoint 8 24))\n")
	sb.WriteString("(declare-fun ufpdiv32 ((_ FloatingPoint 8 24) (_ FloatingPoint 8 24)) (_ FloatingPoint 8 24))\n")
	sb.WriteString("(declare-fun ufpmul64 ((_ FloatingPoint 11 53) (_ FloatingPoint 11 53)) (_ FloatingPoint 11 53))\n")
	sb.WriteString("(declare-fun ufpdiv64 ((_ FloatingPoint 11 53) (_ FloatingPoint 11 53)) (_ FloatingPoint 11 53))\n")
	sb.WriteString("(declare-fun mh64 ((_ BitVec 64) (_ BitVec 64)) (_ BitVec 64))\n")
	sb.WriteString("(declare-fun mh32 ((_ BitVec 32) (_ BitVec 64)) (_ BitVec 64))\n")
	sb.WriteString("(declare-fun mhbytes ((Array (_ BitVec 64) (_ BitVec 8)) (_ BitVec 64) (_ BitVec 64) (_ BitVec 64)) (_ BitVec 64))\n")
	sb.WriteString("(declare-fun strrank ((Array (_ BitVec 64) (_ BitVec 8)) (_ BitVec 64) (_ BitVec 64)) Int)\n")
	sb.WriteString("(declare-fun strrank_i ((Array Int (_ BitVec 8)) Int Int) Int)\n")
	sb.WriteString("(declare-const M8imm (Array (_ BitVec 64) (_ BitVec 8)))\n(declare-const M8imm_i (Array Int (_ BitVec 8)))\n")
	sb.WriteString("(declare-fun sconcat_id (Int Int) Int)\n(declare-fun strlit_id (Int) Int)\n")
	sb.WriteString("(declare-fun streq ((Array (_ BitVec 64) (_ BitVec 8)) (_ BitVec 64) (_ BitVec 64) (_ BitVec 64) (_ BitVec 64)) Bool)\n")
	return sb.String()
}

// Render writes the SMT-LIB query for "prefix |= goal".
func RenderQuery(prelude []string, prefix []LogItem, goal Term, extra string) string {
	var sb strings.Builder
	sb.WriteString("(set-logic ALL)\n")
	sb.WriteString(ufDecls())
	for _, p := range prelude {
		sb.WriteString(p)
		sb.WriteString("\n")
	}
	sb.WriteString(extra)
	for _, it := range prefix {
		switch it.Kind {
		case LDecl:
			fmt.Fprintf(&sb, "(declare-const %s %s)\n", it.Name, it.Sort.SMT())
		case LAssume:
			if it.Note != "" && it.Note != "def" {
				fmt.Fprintf(&sb, "; %s\n", strings.ReplaceAll(it.Note, "\n", " "))
			}
			fmt.Fprintf(&sb, "(assert %s)\n", it.T.S)
		}
	}
	body := sb.String()
	var lem strings.Builder
	for _, w := range []int{64, 32} {
		lem.WriteString(MulLemmas(body+goal.S, w))
	}
	return body + lem.String() + fmt.Sprintf("(assert (not %s))\n(check-sat)\n(get-model)\n", goal.S)
}

type solverCmd struct {
	name string
	args func(file string, secs int) []string
}

var solverCmds = []solverCmd{
	{"z3-new", func(f string, s int) []string { return []string{"z3-new", "-smt2", fmt.Sprintf("-T:%d", s), f} }},
	{"z3", func(f string, s int) []string { return []string{"z3", "-smt2", fmt.Sprintf("-T:%d", s), f} }},
	{"cvc5", func(f string, s int) []string {
		return []string{"cvc5", "--lang", "smt2", "--produce-models", fmt.Sprintf("--tlimit=%d", s*1000), f}
	}},
}

func runOne(ctx context.Context, sc solverCmd, file string, timeout time.Duration) *SolveResult {
	secs := int(timeout.Seconds())
	if secs < 1 {
		secs = 1
	}
	args := sc.args(file, secs)
	cctx, cancel := context.WithTimeout(ctx, timeout+2*time.Second)
	defer cancel()
	cmd := exec.CommandContext(cctx, args[0], args[1:]...)
	var out bytes.Buffer
	cmd.Stdout = &out
	cmd.Stderr = &out
	t0 := time.Now()
	_ = cmd.Run()
	res := &SolveResult{Solver: sc.name, Seconds: time.Since(t0).Seconds(), File: file}
	text := out.String()
	res.Output = text
	first := strings.TrimSpace(text)
	if i := strings.IndexByte(first, '\n'); i >= 0 {
		first = strings.TrimSpace(first[:i])
	}
	switch first {
	case "unsat":
		res.Status = "unsat"
	case "sat":
		res.Status = "sat"
		if i := strings.IndexByte(text, '\n'); i >= 0 {
			res.Model = strings.TrimSpace(text[i+1:])
		}
	case "unknown":
		res.Status = "unknown"
	case "timeout":
		res.Status = "timeout"
	default:
		if cctx.Err() != nil || strings.Contains(text, "timeout") || strings.Contains(text, "interrupted") {
			res.Status = "timeout"
		} else {
			res.Status = "error"
		}
	}
	return res
}

// Solve decides one query with the portfolio.
func (s *Solver) Solve(name, query string) *SolveResult {
	h := fmt.Sprintf("%x", sha256.Sum256([]byte(query)))[:24]
	s.mu.Lock()
	if r, ok := s.cache[h]; ok {
		s.mu.Unlock()
		return r
	}
	s.Queries++
	s.mu.Unlock()
	s.Parallel <- struct{}{}
	defer func() { <-s.Parallel }()
	file := filepath.Join(s.Dir, mangle(name)+"-"+h[:10]+".smt2")
	if len(filepath.Base(file)) > 200 {
		file = filepath.Join(s.Dir, "q-"+h+".smt2")
	}
	if err := os.WriteFile(file, []byte(query), 0o644); err != nil {
		return &SolveResult{Status: "error", Output: err.Error()}
	}
	// stage 1: fastest solver alone with a short limit
	res := runOne(context.Background(), solverCmds[0], file, s.Quick)
	if res.Status != "unsat" && res.Status != "sat" {
		// stage 2: race all back ends
		ctx, cancel := context.WithCancel(context.Background())
		ch := make(chan *SolveResult, len(solverCmds))
		for _, sc := range solverCmds {
			sc := sc
			go func() { ch <- runOne(ctx, sc, file, s.Timeout) }()
		}
		var last *SolveResult
		for range solverCmds {
			r := <-ch
			if r.Status == "unsat" || r.Status == "sat" {
				last = r
				break
			}
			if last == nil || (last.Status == "error" && r.Status != "error") {
				last = r
			}
		}
		cancel()
		res = last
	}
	s.mu.Lock()
	s.cache[h] = res
	if res.Status == "unsat" || res.Status == "sat" {
		s.Stats[res.Solver]++
		s.Time[res.Solver] += res.Seconds
	}
	s.mu.Unlock()
	if !s.KeepSMT && res.Status == "unsat" {
		os.Remove(file)
	}
	return res
}

// SolveQuick runs only the first stage (one solver, short limit); used for
// relaxed queries whose `unsat` is conclusive and whose other answers are not.
func (s *Solver) SolveQuick(name, query string) *SolveResult {
	h := fmt.Sprintf("%x", sha256.Sum256([]byte(query)))[:24]
	s.mu.Lock()
	if r, ok := s.cache[h]; ok {
		s.mu.Unlock()
		return r
	}
	s.Queries++
	s.mu.Unlock()
	s.Parallel <- struct{}{}
	defer func() { <-s.Parallel }()
	file := filepath.Join(s.Dir, "q-"+h+".smt2")
	if err := os.WriteFile(file, []byte(query), 0o644); err != nil {
		return &SolveResult{Status: "error", Output: err.Error()}
	}
	res := runOne(context.Background(), solverCmds[0], file, s.Quick)
	s.mu.Lock()
	s.cache[h] = res
	if res.Status == "unsat" {
		s.Stats[res.Solver]++
		s.Time[res.Solver] += res.Seconds
	}
	s.mu.Unlock()
	if !s.KeepSMT {
		os.Remove(file)
	}
	return res
}

// SolveFresh races all back ends on the query without consulting the cache.
func (s *Solver) SolveFresh(name, query string) *SolveResult {
	s.mu.Lock()
	s.Queries++
	s.mu.Unlock()
	file := filepath.Join(s.Dir, mangle(name)+fmt.Sprintf("-%x.smt2", sha256.Sum256([]byte(query)))[:40])
	if len(filepath.Base(file)) > 200 {
		file = filepath.Join(s.Dir, fmt.Sprintf("r-%x.smt2", sha256.Sum256([]byte(query)))[:40])
	}
	if err := os.WriteFile(file, []byte(query), 0o644); err != nil {
		return &SolveResult{Status: "error", Output: err.Error()}
	}
	ctx, cancel := context.WithCancel(context.Background())
	ch := make(chan *SolveResult, len(solverCmds))
	for _, sc := range solverCmds {
		sc := sc
		go func() { ch <- runOne(ctx, sc, file, s.Timeout) }()
	}
	var last *SolveResult
	for range solverCmds {
		r := <-ch
		if r.Status == "unsat" || r.Status == "sat" {
			last = r
			break
		}
		if last == nil || (last.Status == "error" && r.Status != "error") {
			last = r
		}
	}
	cancel()
	s.mu.Lock()
	if last.Status == "unsat" || last.Status == "sat" {
		s.Stats[last.Solver]++
		s.Time[last.Solver] += last.Seconds
	}
	s.mu.Unlock()
	if !s.KeepSMT && last.Status == "unsat" {
		os.Remove(file)
	}
	return last
}


// ConcreteFP replaces the uninterpreted floating-point product/quotient by the
// IEEE-754 operations (round to nearest even).
func ConcreteFP(q string) string {
	for _, w := range []struct{ n, s string }{{"32", "(_ FloatingPoint 8 24)"}, {"64", "(_ FloatingPoint 11 53)"}} {
		for _, op := range []string{"mul", "div"} {
			old := fmt.Sprintf("(declare-fun ufp%s%s (%s %s) %s)\n", op, w.n, w.s, w.s, w.s)
			neu := fmt.Sprintf("(define-fun ufp%s%s ((x %s) (y %s)) %s (fp.%s RNE x y))\n", op, w.n, w.s, w.s, w.s, op)
			q = strings.Replace(q, old, neu, 1)
		}
	}
	return q
}
