package vc

import (
	"fmt"
	"os"
	"os/exec"
	"path/filepath"
	"regexp"
	"strings"
)

// c11Schedules: BOUNDED stand-in for the clauses of C11 the monitor proofs do
// not decide (unbuffered hand-off, close racing with a hand-off, several
// receivers). The real z_chan.go is copied from the working tree (only its two
// C-binding import paths are redirected to the shims of harness/c10_sched) and
// run under a cooperative scheduler; every interleaving of small scenarios is
// enumerated depth-first up to a cap, then random schedules are added.
func c11Schedules(ck *Checker, rep *Report, opts *Options) {
	if opts.OnlyFn != "" {
		return
	}
	src := filepath.Join(opts.RepoDir, "runtime", "internal", "lib", "runtime", "sema_llgo.go")
	b, err := os.ReadFile(src)
	if ov, ok := opts.Overlay[src]; ok {
		b, err = ov, nil
	}
	if err != nil {
		rep.Broken = append(rep.Broken, "c11 schedule harness: "+err.Error())
		return
	}
	text := string(b)
	text = strings.Replace(text, `"github.com/goplus/llgo/runtime/internal/clite/pthread/sync"`, `"semasched/psync"`, 1)
	text = strings.Replace(text, `"github.com/goplus/llgo/runtime/internal/lib/sync/atomic"`, `"semasched/latomic"`, 1)
	text = regexp.MustCompile(`(?m)^//go:linkname .*\n`).ReplaceAllString(text, "")
	if !strings.Contains(text, `"semasched/psync"`) || !strings.Contains(text, `"semasched/latomic"`) {
		rep.Broken = append(rep.Broken, "c11 schedule harness: sema_llgo.go no longer imports the two packages the shims stand in for")
		return
	}
	scratch := filepath.Join(opts.Scratch, "c11sched")
	os.RemoveAll(scratch)
	if out, err := exec.Command("cp", "-r", filepath.Join(opts.VerifDir, "harness", "c11_sched"), scratch).CombinedOutput(); err != nil {
		rep.Broken = append(rep.Broken, "c11 schedule harness: "+string(out))
		return
	}
	os.WriteFile(filepath.Join(scratch, "semart", "sema_llgo.go"), []byte(text), 0o644)
	gobin := os.Getenv("GO")
	if gobin == "" {
		gobin = "go"
	}
	max := "12000"
	if opts.Tier == "thorough" {
		max = "300000"
	}
	cmd := exec.Command(gobin, "test", "-vet=off", "-count=1", "-v", "-timeout", "1500s", "-run", "TestZZVerifSemaSchedules", "./semart/")
	cmd.Dir = scratch
	cmd.Env = append(os.Environ(), "VERIF_C11=1", "VERIF_C11_MAX="+max, fmt.Sprintf("VERIF_SEED=%d", opts.Seed), "GOFLAGS=-mod=mod", "GOWORK=off")
	out, _ := cmd.CombinedOutput()
	parseBounded(rep, string(out), "c11sched", 1, "waiters-admitted-under-every-schedule",
		"9 scenarios (semaphore with 0..2 initial permits, up to 2 acquirers and 2 releasers; notify list used as sync.Cond does: 1-2 waiters vs signal, broadcast, two signals): every interleaving at pthread mutex/cond and atomic-operation granularity enumerated depth-first up to "+max+" schedules per scenario, then "+max+"/2 random schedules where the enumeration was cut off; oracle: nobody left blocked while permits / notifications suffice, final count exact")
	var sc []string
	for _, m := range regexp.MustCompile(`ZZSCEN (.*)`).FindAllStringSubmatch(string(out), -1) {
		sc = append(sc, m[1])
	}
	rep.Extra["semaphore_schedule_exploration"] = sc
}
