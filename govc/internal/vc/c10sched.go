package vc

import (
	"fmt"
	"os"
	"os/exec"
	"path/filepath"
	"regexp"
	"strings"
)

// c10Schedules: BOUNDED stand-in for the clauses of C10 the monitor proofs do
// not decide (unbuffered hand-off, close racing with a hand-off, several
// receivers). The real z_chan.go is copied from the working tree (only its two
// C-binding import paths are redirected to the shims of harness/c10_sched) and
// run under a cooperative scheduler; every interleaving of small scenarios is
// enumerated depth-first up to a cap, then random schedules are added.
func c10Schedules(ck *Checker, rep *Report, opts *Options) {
	if opts.OnlyFn != "" {
		return
	}
	src := filepath.Join(opts.RepoDir, "runtime", "internal", "runtime", "z_chan.go")
	b, err := os.ReadFile(src)
	if ov, ok := opts.Overlay[src]; ok {
		b, err = ov, nil
	}
	if err != nil {
		rep.Broken = append(rep.Broken, "c10 schedule harness: "+err.Error())
		return
	}
	text := string(b)
	text = strings.Replace(text, `c "github.com/goplus/llgo/runtime/internal/clite"`, `c "chansched/c"`, 1)
	text = strings.Replace(text, `"github.com/goplus/llgo/runtime/internal/clite/pthread/sync"`, `"chansched/psync"`, 1)
	if !strings.Contains(text, `"chansched/c"`) || !strings.Contains(text, `"chansched/psync"`) {
		rep.Broken = append(rep.Broken, "c10 schedule harness: z_chan.go no longer imports the two C-binding packages the shims stand in for")
		return
	}
	scratch := filepath.Join(opts.Scratch, "c10sched")
	os.RemoveAll(scratch)
	if out, err := exec.Command("cp", "-r", filepath.Join(opts.VerifDir, "harness", "c10_sched"), scratch).CombinedOutput(); err != nil {
		rep.Broken = append(rep.Broken, "c10 schedule harness: "+string(out))
		return
	}
	os.WriteFile(filepath.Join(scratch, "chanrt", "z_chan.go"), []byte(text), 0o644)
	gobin := os.Getenv("GO")
	if gobin == "" {
		gobin = "go"
	}
	max := "15000"
	if opts.Tier == "thorough" {
		max = "300000"
	}
	cmd := exec.Command(gobin, "test", "-vet=off", "-count=1", "-v", "-timeout", "1500s", "-run", "TestZZVerifChanSchedules", "./chanrt/")
	cmd.Dir = scratch
	cmd.Env = append(os.Environ(), "VERIF_C10=1", "VERIF_C10_MAX="+max, fmt.Sprintf("VERIF_SEED=%d", opts.Seed), "GOFLAGS=-mod=mod", "GOWORK=off")
	out, _ := cmd.CombinedOutput()
	parseBounded(rep, string(out), "c10sched", 1, "channel-semantics-under-every-schedule",
		"28 scenarios (unbuffered and capacity-1 channels; send-then-close vs one or two receives, two sends vs two receives from one or two threads, close vs receive, blocking select with one receive or one send case, pairs of blocking selects that can only meet each other with and without nil-channel cases in both address orders; at most 3 threads, 2 values): every interleaving at pthread mutex/cond granularity enumerated depth-first up to "+max+" schedules per scenario, then "+max+"/2 random schedules where the enumeration was cut off")
	var sc []string
	for _, m := range regexp.MustCompile(`ZZSCEN (.*)`).FindAllStringSubmatch(string(out), -1) {
		sc = append(sc, m[1])
	}
	rep.Extra["channel_schedule_exploration"] = sc
}
