package vc

import (
	"fmt"
	"go/types"
	"math/big"

	"golang.org/x/tools/go/ssa"
)

// Trusted models of external functions (C library, llgo intrinsics, Go
// runtime helpers copied verbatim). Every use is recorded in Engine.Trusted.

const (
	clitePkg = "github.com/goplus/llgo/runtime/internal/clite"
	rtPkg    = "github.com/goplus/llgo/runtime/internal/runtime"
)

func DefaultIntrinsics() map[string]Intrinsic {
	m := map[string]Intrinsic{}
	m[clitePkg+".Advance"] = inAdvance
	m[clitePkg+".Memcpy"] = func(r *FnRun, st *State, c ssa.CallInstruction, a []Val) (Val, bool) {
		return inMemcopy(r, st, c, a, true)
	}
	m[clitePkg+".Memmove"] = func(r *FnRun, st *State, c ssa.CallInstruction, a []Val) (Val, bool) {
		return inMemcopy(r, st, c, a, false)
	}
	m[clitePkg+".Memset"] = inMemset
	m[rtPkg+".AllocZ"] = func(r *FnRun, st *State, c ssa.CallInstruction, a []Val) (Val, bool) {
		return inAlloc(r, st, c, a, true)
	}
	m[rtPkg+".AllocU"] = func(r *FnRun, st *State, c ssa.CallInstruction, a []Val) (Val, bool) {
		return inAlloc(r, st, c, a, false)
	}
	m[rtPkg+"/math.MulUintptr"] = inMulUintptr
	m[rtPkg+".memhash"] = inMemhash
	m[rtPkg+".fastrand"] = func(r *FnRun, st *State, c ssa.CallInstruction, a []Val) (Val, bool) {
		r.E.Trusted["fastrand: returns an arbitrary uint32"] = true
		return st.declare(r.freshName("rand"), BV(32, false)), true
	}
	for k, v := range extraIntrinsics {
		m[k] = v
	}
	return m
}

func siteOf(r *FnRun, c ssa.CallInstruction, name string) string {
	return fmt.Sprintf("call.%s#%d", name, r.siteIdx[c.(ssa.Instruction)])
}

// c.Advance(ptr, off): unsafe.Pointer -> byte offset; *T -> element offset.
func inAdvance(r *FnRun, st *State, c ssa.CallInstruction, a []Val) (Val, bool) {
	r.E.Trusted["llgo intrinsic clite.Advance = address + offset*sizeof(elem) (bytes for unsafe.Pointer)"] = true
	p, ok := a[0].(Term)
	if !ok {
		panic(unsupported("Advance on non-address"))
	}
	off := a[1].(Term)
	off64 := Resize(off, 64, false)
	var es int64 = 1
	if pt, ok := c.Common().Args[0].Type().Underlying().(*types.Pointer); ok {
		es = r.E.Sizes.Sizeof(pt.Elem())
	}
	return st.name("adv", Add(p, Mul(off64, BVInt(es, 64, false)))), true
}

// inRegion: [p,p+n) lies inside one registered valid region (or n == 0).
func inRegion(st *State, p, n Term) Term {
	pu, nu := Term{p.S, BV(64, false)}, Term{n.S, BV(64, false)}
	var ds []Term
	ds = append(ds, Eq(nu, BVInt(0, 64, false)))
	lim := BVInt(addrLimit, 64, false)
	for _, rg := range st.regions {
		ds = append(ds, And(rg.Cond, Le(rg.Base, pu), Le(BVInt(0, 64, false), nu), Le(nu, lim), Le(pu, lim), Le(Add(pu, nu), Add(rg.Base, rg.Size))))
	}
	return Or(ds...)
}

func inMemcopy(r *FnRun, st *State, c ssa.CallInstruction, a []Val, strict bool) (Val, bool) {
	name := "Memmove"
	if strict {
		name = "Memcpy"
		r.E.Trusted["libc memcpy: copies n bytes; behaviour undefined if the regions overlap (ISO C 7.24.2.1) -> precondition"] = true
	} else {
		r.E.Trusted["libc memmove: copies n bytes as if through a temporary (ISO C 7.24.2.2)"] = true
	}
	dst, src, n := a[0].(Term), a[1].(Term), a[2].(Term)
	site := siteOf(r, c, name)
	ins := c.(ssa.Instruction)
	if strict {
		r.addGoal(st, site+"/pre.no-overlap", r.posOf(ins), disjointTerm(dst, n, src, n), nil)
	}
	r.addGoal(st, site+"/pre.dst-valid", r.posOf(ins), inRegion(st, dst, n), nil)
	r.addGoal(st, site+"/pre.src-valid", r.posOf(ins), inRegion(st, src, n), nil)
	st.assume(And(inRegion(st, dst, n), inRegion(st, src, n)), "memcpy regions valid")
	old := st.memArr("M8")
	nw := st.declare(r.freshName("M8_cp"), memSort("M8"))
	k := Term{"a!c", BV(64, false)}
	in := And(Le(dst, k), Lt(k, Add(dst, n)))
	body := Ident(Select(nw, k), Ite(in, Select(old, Add(src, Sub(k, dst))), Select(old, k)))
	st.assume(Forall([]Term{k}, body), name+" effect")
	st.mem["M8"] = nw
	st.writes++
	return dst, true
}

func inMemset(r *FnRun, st *State, c ssa.CallInstruction, a []Val) (Val, bool) {
	r.E.Trusted["libc memset: sets n bytes to (unsigned char)c"] = true
	dst, cv, n := a[0].(Term), a[1].(Term), a[2].(Term)
	site := siteOf(r, c, "Memset")
	r.addGoal(st, site+"/pre.dst-valid", r.posOf(c.(ssa.Instruction)), inRegion(st, dst, n), nil)
	old := st.memArr("M8")
	nw := st.declare(r.freshName("M8_set"), memSort("M8"))
	k := Term{"a!c", BV(64, false)}
	in := And(Le(dst, k), Lt(k, Add(dst, n)))
	body := Ident(Select(nw, k), Ite(in, Resize(cv, 8, false), Select(old, k)))
	st.assume(Forall([]Term{k}, body), "memset effect")
	st.mem["M8"] = nw
	st.writes++
	return dst, true
}

func inAlloc(r *FnRun, st *State, c ssa.CallInstruction, a []Val, zero bool) (Val, bool) {
	r.E.Trusted["allocator AllocZ/AllocU: returns a fresh block of the requested size, disjoint from all live memory, non-nil for size > 0 (zeroed for AllocZ); a request above 2^48 bytes does not return (allocator aborts)"] = true
	size := a[0].(Term)
	site := siteOf(r, c, "Alloc")
	// a request the address space cannot hold does not return (the allocator aborts)
	_ = site
	st.assume(Le(size, BVInt(addrLimit, 64, false)), "allocator returns only for sizes within the address space")
	addr := st.declare(r.freshName("alloc"), BV(PtrW, false))
	r.registerFresh(st, addr, size)
	if zero {
		k := Term{"a!z", BV(64, false)}
		st.assume(Forall([]Term{k}, Implies(And(Le(addr, k), Lt(k, Add(addr, size))), Eq(Select(st.memArr("M8"), k), BVInt(0, 8, false)))), "AllocZ zeroes")
	}
	return addr, true
}

// math.MulUintptr (verbatim copy of Go's runtime/internal/math): trusted.
func inMulUintptr(r *FnRun, st *State, c ssa.CallInstruction, a []Val) (Val, bool) {
	r.E.Trusted["runtime/math.MulUintptr: returns (a*b mod 2^64, a*b >= 2^64) (verbatim copy of Go's runtime helper; 128-bit product not re-proved)"] = true
	x, y := a[0].(Term), a[1].(Term)
	return &TupleVal{E: []Val{Mul(x, y), MulOverflows(x, y)}}, true
}

// MulOverflows is the (abstract) predicate "unsigned product does not fit".
func MulOverflows(x, y Term) Term {
	if xv, ok := constVal(x); ok {
		if xv.Sign() == 0 || xv.Int64() == 1 {
			return False
		}
	}
	if yv, ok := constVal(y); ok {
		if yv.Sign() == 0 || yv.Int64() == 1 {
			return False
		}
	}
	if x.Sort.K == KInt {
		return Term{fmt.Sprintf("(> (* %s %s) %s)", x.S, y.S, new(big.Int).Sub(pow2(64), big.NewInt(1))), BoolSort()}
	}
	a, b := x, y
	if a.S > b.S {
		a, b = b, a
	}
	return Term{fmt.Sprintf("(umulovf%d %s %s)", x.Sort.W, a.S, b.S), BoolSort()}
}

// memhash(p, seed, size): uninterpreted function of the bytes hashed (trusted:
// the hash depends only on the seed and the contents of [p, p+size)).
func inMemhash(r *FnRun, st *State, c ssa.CallInstruction, a []Val) (Val, bool) {
	r.E.Trusted["memhash(p, seed, n): a function of the seed and the n bytes at p only (uninterpreted)"] = true
	if IntMode {
		panic(unsupported("memhash in int mode"))
	}
	p, seed, n := a[0].(Term), a[1].(Term), a[2].(Term)
	if v, ok := constVal(n); ok {
		switch v.Int64() {
		case 8:
			return Term{app("mh64", Term{Select(st.memArr("M64"), p).S, BV(64, false)}, seed), BV(64, false)}, true
		case 4:
			return Term{app("mh32", Term{Select(st.memArr("M32"), p).S, BV(32, false)}, seed), BV(64, false)}, true
		}
	}
	return Term{app("mhbytes", st.memArr("M8"), p, n, seed), BV(64, false)}, true
}
