package vc

import "strings"

// Property configurations (which packages carry the functions under contract).

var rtModule = Module{Dir: "runtime", Patterns: []string{"./internal/runtime"}}

func init() {
	PropConfigs["C03"] = &PropConfig{ID: "C03", Modules: []Module{rtModule}, Specs: []string{"common.smt2"},
		// compiler side: index/slice/make/type-assertion emission cases, plus the integer
		// division and remainder cases of C02 (division by zero is one of C03's panics: the
		// guard must be emitted at every division, also the second one in a function)
		Extra: func(ck *Checker, rep *Report, opts *Options) []*Goal {
			ret := c03CompilerGoals(ck, rep, opts)
			if opts.OnlyFn != "" && !strings.Contains("ssa.Builder.BinOp", opts.OnlyFn) {
				return ret
			}
			sub := &Report{Property: rep.Property, Extra: map[string]interface{}{}}
			for _, g := range c02Goals(ck, sub, opts) {
				if strings.Contains(g.Oblig, "[op=QUO,") || strings.Contains(g.Oblig, "[op=REM,") {
					ret = append(ret, g)
				}
			}
			rep.Broken = append(rep.Broken, sub.Broken...)
			for _, f := range sub.Funcs {
				if f == "ssa.Builder.BinOp" {
					rep.Funcs = append(rep.Funcs, f)
				}
			}
			return ret
		}}
	PropConfigs["C11"] = &PropConfig{ID: "C11", Modules: []Module{{Dir: "runtime", Patterns: []string{"./internal/lib/runtime"}}}, Specs: []string{"common.smt2"}, Post: c11Schedules,
		Undecided: []string{
			"liveness (admission of waiters, wake-ups) beyond the safety formulations in the contracts: bounded schedule exploration only (at most 4 threads, capped enumeration)",
			"go-statement lowering, atomics lowering tables and the hardware/LLVM memory model; sync.Mutex/RWMutex/WaitGroup/Once code of the standard library itself",
		}}
	PropConfigs["C06"] = &PropConfig{ID: "C06", Modules: []Module{rtModule}, Specs: []string{"common.smt2"}, Post: func(ck *Checker, rep *Report, opts *Options) { c06MapBounded(ck, rep, opts); c06KeyKinds(ck, rep, opts) },
		Undecided: []string{
			"the finite-map refinement of mapassign/mapaccess/mapdelete/mapclear/evacuate/mapiternext beyond the stated bounds (bounded stand-ins only: uint64 keys under adversarial hash functions; struct/string/float/interface keys through the real typehash and equality functions; NaN float keys only in the iteration-during-growth scenario; no indirect keys/elems)",
			"typehash/structequal/arrayequal recursion over type descriptors beyond the key types of the bounded run; mapclone/keys/values; reflect entry points",
		}}
	PropConfigs["C07"] = &PropConfig{ID: "C07", Modules: []Module{rtModule}, Specs: []string{"common.smt2"},
		Post: func(ck *Checker, rep *Report, opts *Options) {
			if opts.OnlyFn != "" {
				return
			}
			runBounded(rep, opts, "c07", map[string]string{"ssa/abi/zz_verif_names_test.go": "harness/c07_names_test.go"}, []string{"./ssa/abi/"}, "TestZZVerifTypeNames",
				[]string{"VERIF_C07=1"}, 1, "descriptor-name-iff-identical", "a fixed family of 111 types (6105 pairs) varying every attribute of Go type identity, incl. function-local types of equal name in different functions and block scopes, local aliases and generic instantiations taken from type-checked source, and every attribute once more inside a type argument of a generic instance (embedded vs named field, tags, field names and order, variadic, channel direction, array length, method names; directly and below slice, map, pointer, function)")
			// same question asked of the whole naming pipeline: Go type -> raw type (Program.Type) -> descriptor name
			runBounded(rep, opts, "c07p", map[string]string{"ssa/zz_verif_pipeline_names_test.go": "harness/c07_pipeline_test.go"}, []string{"./ssa/"}, "TestZZVerifPipelineTypeNames",
				[]string{"VERIF_C07=1"}, 1, "descriptor-name-iff-identical", "a fixed family of 78 types (3003 pairs): the 56 above plus signatures whose parameters/results need the raw conversion (function-typed and named-function-typed parameters, variadic vs slice, nested in slice/pointer/map/chan/struct/interface)",
				"-tags", "llvm14")
			// the method tables the run-time proofs assume (names = method ids, strictly sorted, satisfaction agrees with go/types)
			runBounded(rep, opts, "c07m", map[string]string{"ssa/zz_verif_method_tables_test.go": "harness/c07_methods_test.go"}, []string{"./ssa/"}, "TestZZVerifMethodTables",
				[]string{"VERIF_C07=1"}, 1, "method-tables-match-go-types", "34 emitted method tables (value and pointer types with promoted, unexported, cross-package, value- and pointer-receiver methods over three packages; 15 interfaces incl. embedded and empty ones) and all 280 (type, interface) pairs",
				"-tags", "llvm14")
		}}
	PropConfigs["C20"] = &PropConfig{ID: "C20", Modules: []Module{{Dir: ".", Patterns: []string{"./internal/crosscompile"}}}, Specs: []string{"common.smt2", "paths.smt2"}}
	PropConfigs["C10"] = &PropConfig{ID: "C10", Modules: []Module{rtModule}, Specs: []string{"common.smt2"}, Post: c10Schedules,
		Undecided: []string{
			"unbuffered hand-off, close racing with a hand-off and several receivers: bounded schedule exploration only (small scenarios, capped enumeration)",
			"Select/TrySelect commitment beyond the probing-order contract; every liveness clause in general (the explored scenarios do check that nobody stays blocked)",
		}}
	PropConfigs["C05"] = &PropConfig{ID: "C05", Modules: []Module{rtModule}, Specs: []string{"common.smt2", "utf8.smt2"},
		// slice expressions: the operands the compiler hands to NewSlice3 / StringSlice / MakeSlice
		// (the same emitted-code cases as under C03, restricted to the argument obligations)
		Extra: func(ck *Checker, rep *Report, opts *Options) []*Goal {
			if opts.OnlyFn != "" && !strings.Contains("ssa.Builder.Slice ssa.Builder.MakeSlice cl.compileInstrOrValue(*ssa.Slice)", opts.OnlyFn) {
				return nil
			}
			var ret []*Goal
			for _, g := range c03CompilerGoals(ck, rep, opts) {
				if strings.HasPrefix(g.Oblig, "ssa.Builder.Slice/args") || strings.HasPrefix(g.Oblig, "ssa.Builder.MakeSlice/args") || strings.HasPrefix(g.Oblig, "cl.Slice/") {
					ret = append(ret, g)
				}
			}
			return ret
		}}
}
