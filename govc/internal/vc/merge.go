package vc

import (
	"strings"

	"golang.org/x/tools/go/ssa"
)

// If-conversion: a conditional whose branches are single straight-line blocks
// re-joining immediately (triangle or diamond) is executed once per branch
// and the two states are merged with ite terms, instead of doubling the
// number of paths. Assumptions made inside a branch become guarded by the
// branch condition. Sound: the merged state denotes exactly the union of the
// two branch states.

func (r *FnRun) simpleBranch(blk, pred, join *ssa.BasicBlock) bool {
	if len(blk.Preds) != 1 || blk.Preds[0] != pred || r.loops[blk] != nil {
		return false
	}
	if len(blk.Succs) != 1 || blk.Succs[0] != join {
		return false
	}
	for _, ins := range blk.Instrs {
		switch x := ins.(type) {
		case *ssa.If, *ssa.Return, *ssa.Panic, *ssa.Phi:
			return false
		case ssa.CallInstruction:
			if callee := x.Common().StaticCallee(); callee != nil {
				if _, isLock := lockOps[fullName(callee)]; isLock {
					return false
				}
				for _, n := range r.C.Inline {
					if n == callee.Name() || n == fullName(callee) {
						return false
					}
				}
				if c, ok := r.E.Contracts[fullName(callee)]; ok && (c.HasPanicSpec() || c.Opts["noreturn"] == "yes" || c.Opts["may_panic"] == "yes") {
					return false
				}
			}
			if _, ok := x.(*ssa.Go); ok {
				return false
			}
			if _, ok := x.(*ssa.Defer); ok {
				return false
			}
		}
	}
	return true
}

// runStraight executes the non-terminator instructions of blk.
func (r *FnRun) runStraight(blk *ssa.BasicBlock, st *State) (ok bool) {
	defer func() {
		if x := recover(); x != nil {
			if u, isU := x.(unsupportedErr); isU {
				r.Unsupp = append(r.Unsupp, "merge: "+u.why)
				ok = false
				return
			}
			panic(x)
		}
	}()
	for i, ins := range blk.Instrs {
		if _, isJ := ins.(*ssa.Jump); isJ {
			return true
		}
		if done := r.execInstr(blk, i, ins, st); done {
			return false
		}
	}
	return true
}

func (r *FnRun) tryMergeIf(b *ssa.BasicBlock, c Term, st *State) bool {
	if r.C.Opts["merge_if"] == "off" || r.implicit {
		return false
	}
	t, f := b.Succs[0], b.Succs[1]
	var join *ssa.BasicBlock
	var thenB, elseB *ssa.BasicBlock
	switch {
	case r.simpleBranch(t, b, f):
		join, thenB = f, t
	case r.simpleBranch(f, b, t):
		join, elseB = t, f
	case len(t.Succs) == 1 && len(f.Succs) == 1 && t.Succs[0] == f.Succs[0] && r.simpleBranch(t, b, t.Succs[0]) && r.simpleBranch(f, b, f.Succs[0]):
		join, thenB, elseB = t.Succs[0], t, f
	default:
		return false
	}
	if r.loops[join] != nil {
		return false
	}
	nOut, nGoals := len(r.Outcomes), len(r.Goals)
	base := len(st.log)
	baseReg := len(st.regions)
	s1 := st.clone()
	s1.assume(c, "branch")
	s1.addTrace("b%d: then (merged)", b.Index)
	s2 := st.clone()
	s2.assume(Not(c), "branch")
	s2.addTrace("b%d: else (merged)", b.Index)
	ok := true
	if thenB != nil {
		ok = r.runStraight(thenB, s1)
	}
	if ok && elseB != nil {
		ok = r.runStraight(elseB, s2)
	}
	if !ok || len(r.Outcomes) != nOut {
		// fall back to path forking; drop what the attempt produced
		r.Outcomes = r.Outcomes[:nOut]
		r.Goals = r.Goals[:nGoals]
		return false
	}
	m := st.clone()
	addGuarded := func(s *State, g Term) {
		for _, it := range s.log[base+1:] { // skip the branch assumption itself
			if it.Kind == LAssume && it.Note != "def" {
				it.T = Implies(g, it.T)
			}
			m.log = append(m.log, it)
		}
		for _, rg := range s.regions[baseReg:] {
			rg.Cond = And(g, rg.Cond)
			m.regions = append(m.regions, rg)
		}
		for k, v := range s.regs {
			if _, have := m.regs[k]; !have {
				m.regs[k] = v
			}
		}
		for k, v := range s.ghost {
			if _, have := m.ghost[k]; !have {
				m.ghost[k] = v
			}
		}
	}
	addGuarded(s1, c)
	addGuarded(s2, Not(c))
	for k := range s1.ghost {
		if !strings.HasPrefix(k, "ghost:") {
			continue
		}
		v1, ok1 := s1.ghost[k].(Term)
		v2, ok2 := s2.ghost[k].(Term)
		if !ok2 {
			v2 = BVInt(0, 32, false)
		}
		if ok1 && v1.S != v2.S {
			m.ghost[k] = Ite(c, v1, v2)
		} else if ok1 {
			m.ghost[k] = v1
		}
	}
	for k := range s2.ghost {
		if !strings.HasPrefix(k, "ghost:") {
			continue
		}
		if _, in1 := s1.ghost[k]; !in1 {
			m.ghost[k] = Ite(c, BVInt(0, 32, false), s2.ghost[k].(Term))
		}
	}
	if s1.csAcq != s2.csAcq || s1.csRel != s2.csRel {
		panic(unsupported("critical-section snapshots differ between merged branches"))
	}
	for a := range m.cells {
		m.cells[a] = r.mergeVal(m, c, s1.cells[a], s2.cells[a])
	}
	for a, v := range s1.cells {
		if _, have := m.cells[a]; !have {
			m.cells[a] = v
		}
	}
	for a, v := range s2.cells {
		if _, have := m.cells[a]; !have {
			m.cells[a] = v
		}
	}
	for _, k := range allArrays(s1, s2) {
		a1, a2 := r.arr(s1, k), r.arr(s2, k)
		if a1.S != a2.S {
			m.mem[k] = m.name(k+"_m", Ite(c, a1, a2))
		} else {
			m.mem[k] = a1
		}
	}
	if s1.epoch > m.epoch {
		m.epoch = s1.epoch
	}
	if s2.epoch > m.epoch {
		m.epoch = s2.epoch
	}
	for k, v := range s1.locks {
		if s2.locks[k] != v {
			panic(unsupported("lock state differs between merged branches"))
		}
		m.locks[k] = v
	}
	if s1.writes > m.writes {
		m.writes = s1.writes
	}
	if s2.writes > m.writes {
		m.writes = s2.writes
	}
	m.addTrace("b%d: if merged", b.Index)
	// phis at the join
	phis := map[*ssa.Phi]Val{}
	fromThen, fromElse := b, b
	if thenB != nil {
		fromThen = thenB
	}
	if elseB != nil {
		fromElse = elseB
	}
	for _, ins := range join.Instrs {
		phi, isPhi := ins.(*ssa.Phi)
		if !isPhi {
			break
		}
		var v1, v2 Val
		for i, p := range join.Preds {
			if p == fromThen {
				v1 = r.operand(s1, phi.Edges[i])
			}
			if p == fromElse {
				v2 = r.operand(s2, phi.Edges[i])
			}
		}
		phis[phi] = r.mergeVal(m, c, v1, v2)
	}
	r.execBlockPhi(join, fromThen, m, phis)
	return true
}

func (r *FnRun) mergeVal(st *State, c Term, a, b Val) Val {
	if a == nil {
		return b
	}
	if b == nil {
		return a
	}
	switch x := a.(type) {
	case Term:
		y, ok := b.(Term)
		if !ok {
			panic(unsupported("merge of scalar with non-scalar"))
		}
		return st.name("m", Ite(c, x, y))
	case *StructVal:
		y, ok := b.(*StructVal)
		if !ok || len(x.F) != len(y.F) {
			panic(unsupported("merge of incompatible structs"))
		}
		out := &StructVal{T: x.T, N: x.N}
		for i := range x.F {
			out.F = append(out.F, r.mergeVal(st, c, x.F[i], y.F[i]))
		}
		return out
	case *ArrayVal:
		y, ok := b.(*ArrayVal)
		if !ok || len(x.E) != len(y.E) {
			panic(unsupported("merge of incompatible arrays"))
		}
		out := &ArrayVal{T: x.T}
		for i := range x.E {
			out.E = append(out.E, r.mergeVal(st, c, x.E[i], y.E[i]))
		}
		return out
	case *TupleVal:
		y, ok := b.(*TupleVal)
		if !ok || len(x.E) != len(y.E) {
			panic(unsupported("merge of incompatible tuples"))
		}
		out := &TupleVal{}
		for i := range x.E {
			out.E = append(out.E, r.mergeVal(st, c, x.E[i], y.E[i]))
		}
		return out
	}
	if describeVal(a) == describeVal(b) {
		return a
	}
	panic(unsupported("merge of " + describeVal(a) + " and " + describeVal(b)))
}
