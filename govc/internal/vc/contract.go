package vc

import (
	"bytes"
	"io"
	"bufio"
	"fmt"
	"os"
	"regexp"
	"strconv"
	"strings"
)

// ---------------------------------------------------------------------------
// Contract files: comment-only Go files (//go:build verif) inside /repo, or
// trusted-contract files under /verif/trusted. Only lines starting with
// "//@" are read; "//@+" continues the previous clause.
//
//   //@ func NewSlice3                       (or: //@ func (*Loader).mergeConfig)
//   //@ props C03 C05
//   //@ requires cap >= 0
//   //@ panics_iff C03 bounds: !(0 <= i && i <= j && j <= k && k <= cap)
//   //@ ensures C05 len: s.len == j - i
//   //@ loop 1 invariant bound: 0 <= i && i <= n
//   //@ loop 1 decreases n - i
//   //@ let n0 = old(x.len)
//   //@ modifies nothing

type Clause struct {
	Kind  string   // requires ensures panics_iff panics_if invariant decreases let modifies assume
	Props []string // property ids this clause is counted for (empty = all props of the function)
	Label string
	Loop  int    // for invariant/decreases
	Name  string // for let
	Src   string
	E     Expr
	File  string
	Line  int
}

type FuncContract struct {
	Key      string // "NewSlice3" or "(*Loader).mergeConfig" or full path for trusted ones
	Pkg      string // package path (filled by loader)
	Props    []string
	Params   []string // authoring-time parameter names, bound positionally
	Locals   []string // authoring-time local variable names in declaration order
	Clauses  []*Clause
	Trusted  bool // contract is assumed at call sites and never checked against a body
	Inline   []string
	Arith    string // "bv" (default)
	Opts     map[string]string
	File     string
	Line     int
	Modifies []string // raw modifies specs
	Locks    []*LockDecl
	Effects  map[string][]string // package path -> allowed callee names
	AtCall   []*AtCall
}

// AtCall: caller-side obligation at every call of a callee:  at_call os.MkdirAll requires label: expr
type AtCall struct {
	Callee string
	C      *Clause
}

// LockDecl: monitor declaration  `lock T.f protects items` / `lock T.f invariant e`.
type LockDecl struct {
	Type, Field string
	Protects    []string
	Inv         []*Clause
	WaitInv     []*Clause // two-state conditions that must hold whenever the thread blocks (Cond.Wait)
}

type Macro struct {
	Name   string
	Params []string
	Body   Expr
}

type GhostFn struct {
	Name   string
	Params []string // sort abbreviations: word u8 u32 bool ...
	Result string
}

func (fc *FuncContract) lockDecl(typ, field string) *LockDecl {
	for _, l := range fc.Locks {
		if l.Type == typ && l.Field == field {
			return l
		}
	}
	l := &LockDecl{Type: typ, Field: field}
	fc.Locks = append(fc.Locks, l)
	return l
}

func (fc *FuncContract) ByKind(kind string) []*Clause {
	var out []*Clause
	for _, c := range fc.Clauses {
		if c.Kind == kind {
			out = append(out, c)
		}
	}
	return out
}

func (fc *FuncContract) HasPanicSpec() bool {
	return len(fc.ByKind("panics_iff")) > 0 || len(fc.ByKind("panics_if")) > 0 || len(fc.ByKind("ensures_panic")) > 0
}

type Lemma struct {
	Pkg   interface{} // *types.Package of the contract file's package
	Name  string
	Props []string
	Src   string
	E     Expr
	File  string
	Line  int
}

type ContractFile struct {
	Path     string
	Funcs    []*FuncContract
	Lemmas   []*Lemma
	Macros   map[string]*Macro
	GhostFns []*GhostFn
}

var (
	rePropTags = regexp.MustCompile(`^((?:C\d\d)(?:,C\d\d)*)\s+`)
	reLabel    = regexp.MustCompile(`^([A-Za-z_][A-Za-z0-9_.\-]*):\s+`)
)

// ContractOverlay: replacement text for contract files (set from the --overlay
// option, so that a contract under development can be tried without touching /repo).
var ContractOverlay map[string][]byte

func ParseContractFile(path string) (*ContractFile, error) {
	var f io.Reader
	if b, ok := ContractOverlay[path]; ok {
		f = bytes.NewReader(b)
	} else {
		fh, err := os.Open(path)
		if err != nil {
			return nil, err
		}
		defer fh.Close()
		f = fh
	}
	cf := &ContractFile{Path: path, Macros: map[string]*Macro{}}
	type rawLine struct {
		text string
		line int
	}
	var lines []rawLine
	sc := bufio.NewScanner(f)
	sc.Buffer(make([]byte, 1<<20), 1<<20)
	ln := 0
	for sc.Scan() {
		ln++
		t := strings.TrimSpace(sc.Text())
		if strings.HasPrefix(t, "//@+") {
			if len(lines) == 0 {
				return nil, fmt.Errorf("%s:%d: continuation without clause", path, ln)
			}
			lines[len(lines)-1].text += " " + strings.TrimSpace(t[4:])
			continue
		}
		if strings.HasPrefix(t, "//@") {
			body := strings.TrimSpace(t[3:])
			if i := strings.Index(body, " //"); i >= 0 { // trailing comment
				body = strings.TrimSpace(body[:i])
			}
			if body != "" {
				lines = append(lines, rawLine{body, ln})
			}
		}
	}
	var cur *FuncContract
	for _, rl := range lines {
		kw, rest := splitWord(rl.text)
		errf := func(f string, a ...interface{}) error {
			return fmt.Errorf("%s:%d: %s", path, rl.line, fmt.Sprintf(f, a...))
		}
		switch kw {
		case "fields":
			// authoring-time field names of a struct type (bound by position in LoadContracts)
			continue
		case "func":
			cur = &FuncContract{Key: strings.TrimSpace(rest), File: path, Line: rl.line, Arith: "bv", Opts: map[string]string{}}
			cf.Funcs = append(cf.Funcs, cur)
			continue
		case "macro":
			// macro name(a, b): expr
			i, j := strings.Index(rest, "("), strings.Index(rest, "):")
			if i < 0 || j < i {
				return nil, errf("macro syntax: macro name(params): expr")
			}
			mc := &Macro{Name: strings.TrimSpace(rest[:i])}
			for _, p := range strings.Split(rest[i+1:j], ",") {
				if p = strings.TrimSpace(p); p != "" {
					mc.Params = append(mc.Params, p)
				}
			}
			e, err := ParseExpr(rest[j+2:])
			if err != nil {
				return nil, errf("%v", err)
			}
			mc.Body = expandMacros(e, cf.Macros)
			cf.Macros[mc.Name] = mc
			continue
		case "ghostfn":
			// ghostfn name(word, word) word
			i, j := strings.Index(rest, "("), strings.LastIndex(rest, ")")
			if i < 0 || j < i {
				return nil, errf("ghostfn syntax: ghostfn name(sorts) sort")
			}
			g := &GhostFn{Name: strings.TrimSpace(rest[:i]), Result: strings.TrimSpace(rest[j+1:])}
			for _, p := range strings.Split(rest[i+1:j], ",") {
				if p = strings.TrimSpace(p); p != "" {
					g.Params = append(g.Params, p)
				}
			}
			cf.GhostFns = append(cf.GhostFns, g)
			continue
		case "lemma":
			name, r2 := splitWord(rest)
			name = strings.TrimSuffix(name, ":")
			var props []string
			if m := rePropTags.FindStringSubmatch(r2); m != nil {
				props = strings.Split(m[1], ",")
				r2 = r2[len(m[0]):]
			}
			e, err := ParseExpr(r2)
			if err != nil {
				return nil, errf("%v", err)
			}
			cf.Lemmas = append(cf.Lemmas, &Lemma{Name: name, Props: props, Src: r2, E: e, File: path, Line: rl.line})
			cur = nil
			continue
		}
		if cur == nil {
			return nil, errf("clause %q outside a func block", kw)
		}
		switch kw {
		case "params":
			// the parameter names (receiver first) the contract was written against:
			// bound by POSITION, so that renaming parameters does not invalidate it
			cur.Params = strings.Fields(strings.ReplaceAll(rest, ",", " "))
		case "locals":
			// authoring-time names of the function's local variables in declaration
			// order: a local that was merely renamed is still found (by position)
			cur.Locals = strings.Fields(strings.ReplaceAll(rest, ",", " "))
		case "props":
			cur.Props = strings.Fields(strings.ReplaceAll(rest, ",", " "))
		case "trusted":
			cur.Trusted = true
		case "inline":
			cur.Inline = append(cur.Inline, strings.Fields(rest)...)
		case "arith":
			cur.Arith = strings.TrimSpace(rest)
		case "opt":
			k, v := splitWord(rest)
			cur.Opts[k] = strings.TrimSpace(v)
		case "modifies":
			cur.Modifies = append(cur.Modifies, strings.TrimSpace(rest))
		case "effects":
			// effects os: Open, OpenFile, File.Close
			i := strings.Index(rest, ":")
			if i < 0 {
				return nil, errf("effects needs 'pkg: names'")
			}
			if cur.Effects == nil {
				cur.Effects = map[string][]string{}
			}
			pk := strings.TrimSpace(rest[:i])
			for _, n := range strings.Split(rest[i+1:], ",") {
				if n = strings.TrimSpace(n); n != "" {
					cur.Effects[pk] = append(cur.Effects[pk], n)
				}
			}
			if _, ok := cur.Effects[pk]; !ok {
				cur.Effects[pk] = []string{}
			}
		case "at_call":
			callee, r2 := splitWord(rest)
			k2, r3 := splitWord(r2)
			if k2 != "requires" {
				return nil, errf("at_call <callee> requires [label:] expr")
			}
			c, err := parseClause("at_call", r3, path, rl.line)
			if err != nil {
				return nil, err
			}
			cur.AtCall = append(cur.AtCall, &AtCall{Callee: callee, C: c})
		case "lock":
			// lock T.f protects items | lock T.f invariant [label:] expr
			tf, r2 := splitWord(rest)
			k2, r3 := splitWord(r2)
			dot := strings.Index(tf, ".")
			if dot < 0 {
				return nil, errf("lock needs Type.field")
			}
			ld := cur.lockDecl(tf[:dot], tf[dot+1:])
			switch k2 {
			case "protects":
				ld.Protects = append(ld.Protects, r3)
			case "invariant":
				c, err := parseClause("lockinv", r3, path, rl.line)
				if err != nil {
					return nil, err
				}
				ld.Inv = append(ld.Inv, c)
			case "wait_invariant":
				c, err := parseClause("waitinv", r3, path, rl.line)
				if err != nil {
					return nil, err
				}
				ld.WaitInv = append(ld.WaitInv, c)
			default:
				return nil, errf("lock clause must be protects, invariant or wait_invariant")
			}
		case "requires", "ensures", "panics_iff", "panics_if", "assume", "ensures_panic":
			c, err := parseClause(kw, rest, path, rl.line)
			if err != nil {
				return nil, err
			}
			cur.Clauses = append(cur.Clauses, c)
		case "let":
			// let name = expr
			i := strings.Index(rest, "=")
			if i < 0 {
				return nil, errf("let needs '='")
			}
			name := strings.TrimSpace(rest[:i])
			e, err := ParseExpr(rest[i+1:])
			if err != nil {
				return nil, errf("%v", err)
			}
			cur.Clauses = append(cur.Clauses, &Clause{Kind: "let", Name: name, Src: rest, E: e, File: path, Line: rl.line})
		case "loop":
			ns, r2 := splitWord(rest)
			n, err := strconv.Atoi(ns)
			if err != nil {
				return nil, errf("loop ordinal: %v", err)
			}
			k2, r3 := splitWord(r2)
			if k2 != "invariant" && k2 != "decreases" {
				return nil, errf("loop clause must be invariant or decreases")
			}
			c, err := parseClause(k2, r3, path, rl.line)
			if err != nil {
				return nil, err
			}
			c.Loop = n
			cur.Clauses = append(cur.Clauses, c)
		default:
			return nil, errf("unknown clause keyword %q", kw)
		}
	}
	for _, fc := range cf.Funcs {
		for _, c := range fc.Clauses {
			c.E = expandMacros(c.E, cf.Macros)
		}
		for _, l := range fc.Locks {
			for _, c := range l.Inv {
				c.E = expandMacros(c.E, cf.Macros)
			}
			for _, c := range l.WaitInv {
				c.E = expandMacros(c.E, cf.Macros)
			}
		}
		for _, a := range fc.AtCall {
			a.C.E = expandMacros(a.C.E, cf.Macros)
		}
	}
	for _, lm := range cf.Lemmas {
		lm.E = expandMacros(lm.E, cf.Macros)
	}
	return cf, nil
}

// expandMacros inlines macro calls (by AST substitution of the parameters).
func expandMacros(e Expr, ms map[string]*Macro) Expr {
	if len(ms) == 0 || e == nil {
		return e
	}
	var sub func(e Expr, env map[string]Expr) Expr
	sub = func(e Expr, env map[string]Expr) Expr {
		switch n := e.(type) {
		case *EIdent:
			if v, ok := env[n.Name]; ok {
				return v
			}
			return n
		case *EUnary:
			return &EUnary{n.Op, sub(n.X, env)}
		case *EBinary:
			return &EBinary{n.Op, sub(n.X, env), sub(n.Y, env)}
		case *ECond:
			return &ECond{sub(n.C, env), sub(n.A, env), sub(n.B, env)}
		case *ESel:
			return &ESel{sub(n.X, env), n.Name}
		case *EIndex:
			return &EIndex{sub(n.X, env), sub(n.I, env)}
		case *EQuant:
			inner := map[string]Expr{}
			for k, v := range env {
				inner[k] = v
			}
			for _, v := range n.Vars {
				delete(inner, v.Name)
			}
			return &EQuant{n.Forall, n.Vars, sub(n.Body, inner)}
		case *ECall:
			var args []Expr
			for _, a := range n.Args {
				args = append(args, sub(a, env))
			}
			if id, ok := n.Fn.(*EIdent); ok {
				if m, ok := ms[id.Name]; ok && len(m.Params) == len(args) {
					menv := map[string]Expr{}
					for i, p := range m.Params {
						menv[p] = args[i]
					}
					return sub(m.Body, menv)
				}
			}
			return &ECall{n.Fn, args}
		}
		return e
	}
	return sub(e, map[string]Expr{})
}

func parseClause(kind, rest, path string, line int) (*Clause, error) {
	c := &Clause{Kind: kind, File: path, Line: line}
	if m := rePropTags.FindStringSubmatch(rest); m != nil {
		c.Props = strings.Split(m[1], ",")
		rest = rest[len(m[0]):]
	}
	if m := reLabel.FindStringSubmatch(rest); m != nil {
		c.Label = m[1]
		rest = rest[len(m[0]):]
	}
	c.Src = rest
	e, err := ParseExpr(rest)
	if err != nil {
		return nil, fmt.Errorf("%s:%d: %v", path, line, err)
	}
	c.E = e
	return c, nil
}

func splitWord(s string) (string, string) {
	s = strings.TrimSpace(s)
	i := strings.IndexAny(s, " \t")
	if i < 0 {
		return s, ""
	}
	return s[:i], strings.TrimSpace(s[i+1:])
}
