package vc

import (
	"regexp"
	"encoding/json"
	"fmt"
	"go/types"
	"os"
	"path/filepath"
	"sort"
	"strings"
	"sync"
	"time"

	"golang.org/x/tools/go/packages"
	"golang.org/x/tools/go/ssa"
	"golang.org/x/tools/go/ssa/ssautil"
)

// ---------------------------------------------------------------------------
// Loading the real code and its contracts.

type Module struct {
	Dir      string   // module root (e.g. /repo/runtime)
	Patterns []string // package patterns
	Tags     string
}

type Loaded struct {
	Prog  *ssa.Program
	Pkgs  []*packages.Package
	SPkgs []*ssa.Package
}

func LoadModule(m Module, overlay map[string][]byte) (*Loaded, error) {
	tags := m.Tags
	if tags == "" {
		tags = "llvm14,verif"
	}
	cfg := &packages.Config{Mode: packages.LoadAllSyntax, Dir: m.Dir, BuildFlags: []string{"-tags=" + tags}, Overlay: overlay}
	pkgs, err := packages.Load(cfg, m.Patterns...)
	if err != nil {
		return nil, err
	}
	var errs []string
	packages.Visit(pkgs, nil, func(p *packages.Package) {
		for _, e := range p.Errors {
			errs = append(errs, e.Error())
		}
	})
	if len(errs) > 0 {
		return nil, fmt.Errorf("loading %v: %s", m.Patterns, strings.Join(errs, "; "))
	}
	prog, spkgs := ssautil.AllPackages(pkgs, ssa.GlobalDebug|ssa.InstantiateGenerics)
	prog.Build()
	return &Loaded{Prog: prog, Pkgs: pkgs, SPkgs: spkgs}, nil
}

// ResolveFunc finds the SSA function for a contract key inside a package.
func ResolveFunc(p *ssa.Package, key string) *ssa.Function {
	key = strings.TrimSpace(key)
	if strings.HasPrefix(key, "(") {
		// (*T).m or (T).m
		i := strings.Index(key, ").")
		if i < 0 {
			return nil
		}
		recv, m := key[1:i], key[i+2:]
		ptr := strings.HasPrefix(recv, "*")
		recv = strings.TrimPrefix(recv, "*")
		obj := p.Pkg.Scope().Lookup(recv)
		if obj == nil {
			return nil
		}
		var t types.Type = obj.Type()
		if ptr {
			t = types.NewPointer(t)
		}
		sel := p.Prog.MethodSets.MethodSet(t).Lookup(p.Pkg, m)
		if sel == nil {
			return nil
		}
		return p.Prog.MethodValue(sel)
	}
	if i := strings.Index(key, "$"); i > 0 {
		// anonymous function: parent$N
		parent := p.Func(key[:i])
		if parent == nil {
			return nil
		}
		for _, a := range parent.AnonFuncs {
			if a.Name() == key {
				return a
			}
		}
		return nil
	}
	return p.Func(key)
}

// ---------------------------------------------------------------------------
// Running a property check.

type ObligResult struct {
	Name      string
	Fn        string
	Goals     int
	Status    string // discharged | failed | undecided | known-finding
	Solver    map[string]int
	Seconds   float64
	Fail      *Goal
	FailRes   *SolveResult
	Trivial   int
	Kind      string // proof | cover
	Bounded   string
	Finding   *KnownFinding
	Replayed  bool
	Confirmed bool
}

type KnownFinding struct {
	Property   string `json:"property"`
	Obligation string `json:"obligation"`
	Status     string `json:"status"` // known | fixed
	What       string `json:"what"`
	Commit     string `json:"commit,omitempty"`
	Detail     string `json:"detail,omitempty"`
	// InputsFile (relative to /verif): for a bounded obligation, the committed list of
	// the specific failing inputs that make up this finding; a failing input that is
	// not listed is still reported as a violation.
	InputsFile string `json:"inputs_file,omitempty"`
}

type Report struct {
	Property    string
	Tier        string
	Seed        int
	Funcs       []string
	Obligs      []*ObligResult
	Broken      []string
	Notes       []string
	Trusted     []string
	Wall        float64
	SolverStat  map[string]int
	SolverTime  map[string]float64
	Queries     int
	Extra       map[string]interface{}
	Bounded     []map[string]interface{}
	Assumptions []string
	Undecided   []string
	replays     int
	BoundedFail []BoundedFailure
}

// BoundedFailure: a failing input found by a bounded stand-in (a real failing input on the real code).
type BoundedFailure struct {
	Name   string
	Inputs []string
}

type FuncTarget struct {
	Fn *ssa.Function
	C  *FuncContract
}

type Checker struct {
	E       *Engine
	Solver  *Solver
	Prop    string
	Tier    string
	Targets []FuncTarget
	mu      sync.Mutex
}

// LoadContracts reads every zz_verif_contracts.go next to the loaded packages
// and every trusted contract file.
func LoadContracts(e *Engine, ld *Loaded, trustedDir string) ([]FuncTarget, []*Lemma, error) {
	var targets []FuncTarget
	var lemmas []*Lemma
	seenDir := map[string]bool{}
	for _, sp := range ld.SPkgs {
		if sp == nil {
			continue
		}
		var dir string
		for _, p := range ld.Pkgs {
			if p.Types == sp.Pkg && len(p.GoFiles) > 0 {
				dir = filepath.Dir(p.GoFiles[0])
			}
		}
		if dir == "" || seenDir[dir] {
			continue
		}
		seenDir[dir] = true
		files, _ := filepath.Glob(filepath.Join(dir, "zz_verif_contracts*.go"))
		for _, f := range files {
			renameFields(e, sp.Pkg, f)
			cf, err := ParseContractFile(f)
			if err != nil {
				return nil, nil, err
			}
			for _, lm := range cf.Lemmas {
				lm.Pkg = sp.Pkg
			}
			lemmas = append(lemmas, cf.Lemmas...)
			for _, g := range cf.GhostFns {
				e.GhostFns[g.Name] = g
			}
			for _, fc := range cf.Funcs {
				fn := ResolveFunc(sp, fc.Key)
				if fn == nil {
					// reported as a broken obligation of that function by the caller
					targets = append(targets, FuncTarget{Fn: nil, C: fc})
					fc.Pkg = sp.Pkg.Path()
					continue
				}
				fc.Pkg = sp.Pkg.Path()
				e.Contracts[fullName(fn)] = fc
				targets = append(targets, FuncTarget{Fn: fn, C: fc})
			}
		}
	}
	files, _ := filepath.Glob(filepath.Join(trustedDir, "*.contracts"))
	for _, f := range files {
		cf, err := ParseContractFile(f)
		if err != nil {
			return nil, nil, err
		}
		for _, g := range cf.GhostFns {
			e.GhostFns[g.Name] = g
		}
		for _, fc := range cf.Funcs {
			fc.Trusted = true
			if _, ok := e.Contracts[fc.Key]; !ok {
				e.Contracts[fc.Key] = fc
			}
		}
	}
	return targets, lemmas, nil
}

func hasProp(props []string, p string) bool {
	for _, x := range props {
		if x == p {
			return true
		}
	}
	return false
}

// RunGoals discharges goals in parallel and aggregates them by obligation.
func (c *Checker) RunGoals(goals []*Goal, timeout time.Duration) []*ObligResult {
	type gr struct {
		g *Goal
		r *SolveResult
	}
	results := make([]gr, len(goals))
	var wg sync.WaitGroup
	for i, g := range goals {
		i, g := i, g
		if g.Goal.S == "true" && g.Expect == "unsat" {
			results[i] = gr{g, &SolveResult{Status: "unsat", Solver: "trivial"}}
			continue
		}
		wg.Add(1)
		go func() {
			defer wg.Done()
			if g.Raw != "" {
				r := c.Solver.Solve(g.Oblig, g.Raw)
				if r.Status == "sat" && g.Retry != nil {
					if q2 := g.Retry(); q2 != "" {
						r = c.Solver.Solve(g.Oblig+"-concrete", q2)
					}
				}
				results[i] = gr{g, r}
				return
			}
			// quantifier-free relaxation first: dropping quantified assumptions only
			// weakens the premises, so `unsat` there is a proof of the full query.
			if g.Expect == "unsat" && !strings.Contains(g.Goal.S, "(forall") && !strings.Contains(g.Goal.S, "(exists") {
				var qf []LogItem
				dropped := false
				for _, it := range g.Prefix {
					if it.Kind == LAssume && (strings.Contains(it.T.S, "(forall") || strings.Contains(it.T.S, "(exists")) {
						dropped = true
						continue
					}
					qf = append(qf, it)
				}
				if dropped {
					q := RenderQuery(c.E.Specs.Prelude, qf, g.Goal, lazyDecls(g))
					r := c.Solver.SolveQuick(g.Oblig+"-qf", q)
					if r.Status == "unsat" {
						results[i] = gr{g, r}
						return
					}
				}
			}
			q := RenderQuery(c.E.Specs.Prelude, g.Prefix, g.Goal, lazyDecls(g))
			res := c.Solver.Solve(g.Oblig, q)
			if res.Status == "sat" && g.Expect == "unsat" && (strings.Contains(q, "(ufpmul") || strings.Contains(q, "(ufpdiv")) {
				// floating-point * and / were uninterpreted (shared by code and spec): a
				// model may be spurious, so the answer with the real IEEE operators decides
				res = c.Solver.Solve(g.Oblig+"-ieee", ConcreteFP(q))
			}
			results[i] = gr{g, res}
		}()
	}
	wg.Wait()
	// second chance for undecided queries: re-run them a few at a time with a
	// three times longer limit (timeouts under machine load must not become alarms)
	var retry []int
	for i, x := range results {
		if x.r != nil && x.g.Expect == "unsat" && x.r.Status != "unsat" && x.r.Status != "sat" {
			retry = append(retry, i)
		}
	}
	if len(retry) > 0 && len(retry) <= 40 {
		old := c.Solver.Timeout
		c.Solver.Timeout = 3 * old
		sem := make(chan struct{}, 4)
		var wg2 sync.WaitGroup
		for _, i := range retry {
			i := i
			wg2.Add(1)
			sem <- struct{}{}
			go func() {
				defer wg2.Done()
				defer func() { <-sem }()
				g := results[i].g
				q := g.Raw
				if q == "" {
					q = RenderQuery(c.E.Specs.Prelude, g.Prefix, g.Goal, lazyDecls(g))
					if strings.Contains(q, "(ufpmul") || strings.Contains(q, "(ufpdiv") {
						// undecided after the uninterpreted stage said sat: only the IEEE query counts
						q = ConcreteFP(q)
					}
				}
				r := c.Solver.SolveFresh(g.Oblig+"-retry", q)
				if r.Status == "unsat" || r.Status == "sat" {
					results[i] = gr{g, r}
				}
			}()
		}
		wg2.Wait()
		c.Solver.Timeout = old
	}
	byName := map[string]*ObligResult{}
	var order []string
	for _, x := range results {
		o := byName[x.g.Oblig]
		if o == nil {
			o = &ObligResult{Name: x.g.Oblig, Fn: x.g.Fn, Status: "discharged", Solver: map[string]int{}, Kind: "proof"}
			if x.g.Expect == "sat" || x.g.Expect == "sat-any" {
				o.Kind = "cover"
			}
			if x.g.Expect == "sat-any" {
				o.Status = "failed" // until one member is satisfiable
				o.Fail, o.FailRes = x.g, x.r
			}
			byName[x.g.Oblig] = o
			order = append(order, x.g.Oblig)
		}
		o.Goals++
		o.Seconds += x.r.Seconds
		o.Solver[x.r.Solver]++
		if x.r.Solver == "trivial" {
			o.Trivial++
		}
		if x.g.Expect == "unsat" {
			switch x.r.Status {
			case "unsat":
			case "sat":
				if o.Status != "failed" {
					o.Status = "failed"
					o.Fail, o.FailRes = x.g, x.r
				}
			default:
				if o.Status == "discharged" {
					o.Status = "undecided"
					o.Fail, o.FailRes = x.g, x.r
				}
			}
		} else if x.g.Expect == "sat-any" {
			switch x.r.Status {
			case "sat":
				o.Status = "discharged"
			case "unsat":
			default:
				if o.Status == "failed" {
					o.Status = "undecided"
				}
			}
		} else {
			switch x.r.Status {
			case "sat":
			case "unsat":
				o.Status = "failed" // vacuity: assumptions contradictory / path unreachable
				o.Fail, o.FailRes = x.g, x.r
			default:
				if o.Status == "discharged" {
					o.Status = "undecided"
					o.Fail, o.FailRes = x.g, x.r
				}
			}
		}
	}
	var out []*ObligResult
	for _, n := range order {
		out = append(out, byName[n])
	}
	return out
}

func LoadKnownFindings(path string) ([]*KnownFinding, error) {
	b, err := os.ReadFile(path)
	if err != nil {
		if os.IsNotExist(err) {
			return nil, nil
		}
		return nil, err
	}
	var doc struct {
		Findings []*KnownFinding `json:"findings"`
	}
	if err := json.Unmarshal(b, &doc); err != nil {
		return nil, err
	}
	return doc.Findings, nil
}

func sortedKeys(m map[string]bool) []string {
	out := []string{}
	for k := range m {
		out = append(out, k)
	}
	sort.Strings(out)
	return out
}

func lazyDecls(g *Goal) string {
	if g.Run == nil {
		return ""
	}
	root := g.Run
	for root.parent != nil {
		root = root.parent
	}
	var sb strings.Builder
	for _, it := range root.LazyDecls {
		fmt.Fprintf(&sb, "(declare-const %s %s)\n", it.Name, it.Sort.SMT())
	}
	var names []string
	for n := range root.ghostDecls {
		names = append(names, n)
	}
	sort.Strings(names)
	for _, n := range names {
		sb.WriteString(root.ghostDecls[n])
	}
	return sb.String()
}


// PrintParamClauses prints, for every function under contract in the given
// packages, the `params` clause naming its current parameters.
func PrintParamClauses(dir string, patterns []string) error {
	ld, err := LoadModule(Module{Dir: dir, Patterns: patterns}, nil)
	if err != nil {
		return err
	}
	e := NewEngine()
	e.Prog = ld.Prog
	targets, _, err := LoadContracts(e, ld, "")
	if err != nil {
		return err
	}
	for _, t := range targets {
		if t.Fn == nil {
			continue
		}
		var names []string
		for _, p := range t.Fn.Params {
			n := p.Name()
			if n == "" {
				n = "_"
			}
			names = append(names, n)
		}
		fmt.Printf("%s\t%s\t//@ params %s\n", t.C.File, t.C.Key, strings.Join(names, " "))
		hasLoop := false
		for _, cl := range t.C.Clauses {
			if cl.Loop > 0 {
				hasLoop = true
			}
		}
		if ls := DeclaredLocals(t.Fn); hasLoop && len(ls) > 0 {
			fmt.Printf("%s\t%s\t//@ locals %s\n", t.C.File, t.C.Key, strings.Join(ls, " "))
		}
	}
	return nil
}

// renameFields makes contracts robust to renamed struct fields: a line
//   //@ fields semaState mu cond waiters
// records the field names of a struct type at authoring time; a field that sits at
// the same position under another name in the working tree (same number of fields, the
// old name no longer used in the struct) is substituted in every clause of the file.
// Done textually on the contract text before it is parsed (through ContractOverlay).
func renameFields(e *Engine, pkg *types.Package, path string) {
	data, ok := ContractOverlay[path]
	if !ok {
		b, err := os.ReadFile(path)
		if err != nil {
			return
		}
		data = b
	}
	lines := strings.Split(string(data), "\n")
	ren := map[string]string{}
	for _, l := range lines {
		t := strings.TrimSpace(l)
		if !strings.HasPrefix(t, "//@ fields ") {
			continue
		}
		f := strings.Fields(t[len("//@ fields "):])
		if len(f) < 2 {
			continue
		}
		obj := pkg.Scope().Lookup(f[0])
		if obj == nil {
			continue
		}
		stt, ok := obj.Type().Underlying().(*types.Struct)
		if !ok || stt.NumFields() != len(f)-1 {
			continue
		}
		cur := map[string]bool{}
		for i := 0; i < stt.NumFields(); i++ {
			cur[stt.Field(i).Name()] = true
		}
		for i, old := range f[1:] {
			if now := stt.Field(i).Name(); now != old && !cur[old] {
				ren[old] = now
				e.Notes["field "+f[0]+"."+old+" of the contracts in "+filepath.Base(path)+" is called "+now+" in the working tree (bound by position)"] = true
			}
		}
	}
	if len(ren) == 0 {
		return
	}
	for i, l := range lines {
		t := strings.TrimSpace(l)
		if !strings.HasPrefix(t, "//@") || strings.HasPrefix(t, "//@ fields ") {
			continue
		}
		for old, now := range ren {
			l = regexp.MustCompile(`\.`+regexp.QuoteMeta(old)+`\b`).ReplaceAllString(l, "."+now)
		}
		lines[i] = l
	}
	if ContractOverlay == nil {
		ContractOverlay = map[string][]byte{}
	}
	ContractOverlay[path] = []byte(strings.Join(lines, "\n"))
}
