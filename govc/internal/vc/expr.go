package vc

import (
	"fmt"
	"math/big"
	"strings"
	"unicode"
)

// ---------------------------------------------------------------------------
// Contract expression language: Go expression syntax plus
//   a ==> b, a <==> b, c ? a : b, old(e), forall x T, y T :: e, exists ...
//   len(e) cap(e) mem[e] conversions T(e), spec-function calls f(e...)

type Expr interface{ String() string }

type (
	ENum   struct{ V *big.Int }
	EStr   struct{ V string }
	EIdent struct{ Name string }
	EUnary struct {
		Op string
		X  Expr
	}
	EBinary struct {
		Op   string
		X, Y Expr
	}
	ECall struct {
		Fn   Expr
		Args []Expr
	}
	ESel struct {
		X    Expr
		Name string
	}
	EIndex struct{ X, I Expr }
	ECond  struct{ C, A, B Expr }
	EQuant struct {
		Forall bool
		Vars   []QVar
		Body   Expr
	}
)

type QVar struct{ Name, Type string }

func (e *ENum) String() string   { return e.V.String() }
func (e *EStr) String() string   { return fmt.Sprintf("%q", e.V) }
func (e *EIdent) String() string { return e.Name }
func (e *EUnary) String() string { return e.Op + e.X.String() }
func (e *EBinary) String() string {
	return "(" + e.X.String() + " " + e.Op + " " + e.Y.String() + ")"
}
func (e *ECall) String() string {
	var a []string
	for _, x := range e.Args {
		a = append(a, x.String())
	}
	return e.Fn.String() + "(" + strings.Join(a, ", ") + ")"
}
func (e *ESel) String() string   { return e.X.String() + "." + e.Name }
func (e *EIndex) String() string { return e.X.String() + "[" + e.I.String() + "]" }
func (e *ECond) String() string {
	return "(" + e.C.String() + " ? " + e.A.String() + " : " + e.B.String() + ")"
}
func (e *EQuant) String() string {
	q := "exists"
	if e.Forall {
		q = "forall"
	}
	var vs []string
	for _, v := range e.Vars {
		vs = append(vs, v.Name+" "+v.Type)
	}
	return "(" + q + " " + strings.Join(vs, ", ") + " :: " + e.Body.String() + ")"
}

type tok struct {
	kind string // num str ident op eof
	text string
	pos  int
}

type lexer struct {
	src  string
	toks []tok
}

var ops3 = []string{"<==>", "==>", "&^", "<<", ">>", "==", "!=", "<=", ">=", "&&", "||", "::"}

func lex(src string) ([]tok, error) {
	var toks []tok
	i := 0
	for i < len(src) {
		c := src[i]
		switch {
		case c == ' ' || c == '\t' || c == '\n':
			i++
		case c >= '0' && c <= '9':
			j := i
			for j < len(src) && (isIdentChar(rune(src[j])) || src[j] == '_') {
				j++
			}
			toks = append(toks, tok{"num", src[i:j], i})
			i = j
		case c == '\'':
			// rune literal
			j := i + 1
			for j < len(src) && src[j] != '\'' {
				if src[j] == '\\' {
					j++
				}
				j++
			}
			if j >= len(src) {
				return nil, fmt.Errorf("unterminated rune literal at %d", i)
			}
			toks = append(toks, tok{"rune", src[i : j+1], i})
			i = j + 1
		case c == '"':
			j := i + 1
			for j < len(src) && src[j] != '"' {
				if src[j] == '\\' {
					j++
				}
				j++
			}
			if j >= len(src) {
				return nil, fmt.Errorf("unterminated string at %d", i)
			}
			toks = append(toks, tok{"str", src[i+1 : j], i})
			i = j + 1
		case isIdentStart(rune(c)):
			j := i
			for j < len(src) && isIdentChar(rune(src[j])) {
				j++
			}
			toks = append(toks, tok{"ident", src[i:j], i})
			i = j
		default:
			matched := false
			for _, op := range ops3 {
				if strings.HasPrefix(src[i:], op) {
					toks = append(toks, tok{"op", op, i})
					i += len(op)
					matched = true
					break
				}
			}
			if !matched {
				toks = append(toks, tok{"op", string(c), i})
				i++
			}
		}
	}
	toks = append(toks, tok{"eof", "", len(src)})
	return toks, nil
}

func isIdentStart(r rune) bool { return r == '_' || unicode.IsLetter(r) }
func isIdentChar(r rune) bool  { return r == '_' || unicode.IsLetter(r) || unicode.IsDigit(r) }

type parser struct {
	toks []tok
	p    int
	src  string
}

func ParseExpr(src string) (e Expr, err error) {
	toks, err := lex(src)
	if err != nil {
		return nil, err
	}
	ps := &parser{toks: toks, src: src}
	defer func() {
		if r := recover(); r != nil {
			if pe, ok := r.(parseErr); ok {
				err = fmt.Errorf("%s in %q", string(pe), src)
				return
			}
			panic(r)
		}
	}()
	e = ps.top()
	if ps.peek().kind != "eof" {
		ps.fail("unexpected %q", ps.peek().text)
	}
	return e, nil
}

type parseErr string

func (p *parser) fail(f string, a ...interface{}) {
	panic(parseErr(fmt.Sprintf(f, a...) + fmt.Sprintf(" at offset %d", p.peek().pos)))
}
func (p *parser) peek() tok { return p.toks[p.p] }
func (p *parser) next() tok { t := p.toks[p.p]; p.p++; return t }
func (p *parser) isOp(s string) bool {
	t := p.peek()
	return t.kind == "op" && t.text == s
}
func (p *parser) accept(s string) bool {
	if p.isOp(s) {
		p.p++
		return true
	}
	return false
}
func (p *parser) expect(s string) {
	if !p.accept(s) {
		p.fail("expected %q, got %q", s, p.peek().text)
	}
}

func (p *parser) top() Expr {
	t := p.peek()
	if t.kind == "ident" && (t.text == "forall" || t.text == "exists") {
		p.next()
		q := &EQuant{Forall: t.text == "forall"}
		for {
			n := p.next()
			if n.kind != "ident" {
				p.fail("expected binder name")
			}
			ty := p.next()
			if ty.kind != "ident" {
				p.fail("expected binder type")
			}
			q.Vars = append(q.Vars, QVar{n.text, ty.text})
			if !p.accept(",") {
				break
			}
		}
		p.expect("::")
		q.Body = p.top()
		return q
	}
	c := p.impl()
	if p.accept("?") {
		a := p.top()
		p.expect(":")
		b := p.top()
		return &ECond{c, a, b}
	}
	return c
}

func (p *parser) impl() Expr {
	l := p.or()
	if p.accept("==>") {
		r := p.implRHS()
		return &EBinary{"==>", l, r}
	}
	if p.accept("<==>") {
		r := p.or()
		return &EBinary{"<==>", l, r}
	}
	return l
}

// the right-hand side of an implication may itself be a quantifier / implication
func (p *parser) implRHS() Expr {
	t := p.peek()
	if t.kind == "ident" && (t.text == "forall" || t.text == "exists") {
		return p.top()
	}
	return p.impl()
}

func (p *parser) or() Expr {
	l := p.and()
	for p.accept("||") {
		r := p.and()
		l = &EBinary{"||", l, r}
	}
	return l
}

func (p *parser) and() Expr {
	l := p.cmp()
	for p.accept("&&") {
		r := p.cmp()
		l = &EBinary{"&&", l, r}
	}
	return l
}

func (p *parser) cmp() Expr {
	l := p.add()
	for _, op := range []string{"==", "!=", "<=", ">=", "<", ">"} {
		if p.isOp(op) {
			p.next()
			r := p.add()
			return &EBinary{op, l, r}
		}
	}
	return l
}

func (p *parser) add() Expr {
	l := p.mul()
	for {
		switch {
		case p.accept("+"):
			l = &EBinary{"+", l, p.mul()}
		case p.accept("-"):
			l = &EBinary{"-", l, p.mul()}
		case p.isOp("|") && !p.isOp("||"):
			p.next()
			l = &EBinary{"|", l, p.mul()}
		case p.accept("^"):
			l = &EBinary{"^", l, p.mul()}
		default:
			return l
		}
	}
}

func (p *parser) mul() Expr {
	l := p.unary()
	for {
		switch {
		case p.accept("*"):
			l = &EBinary{"*", l, p.unary()}
		case p.accept("/"):
			l = &EBinary{"/", l, p.unary()}
		case p.accept("%"):
			l = &EBinary{"%", l, p.unary()}
		case p.accept("<<"):
			l = &EBinary{"<<", l, p.unary()}
		case p.accept(">>"):
			l = &EBinary{">>", l, p.unary()}
		case p.accept("&^"):
			l = &EBinary{"&^", l, p.unary()}
		case p.isOp("&"):
			p.next()
			l = &EBinary{"&", l, p.unary()}
		default:
			return l
		}
	}
}

func (p *parser) unary() Expr {
	switch {
	case p.accept("!"):
		return &EUnary{"!", p.unary()}
	case p.accept("-"):
		return &EUnary{"-", p.unary()}
	case p.accept("^"):
		return &EUnary{"^", p.unary()}
	}
	return p.postfix()
}

func (p *parser) postfix() Expr {
	e := p.primary()
	for {
		switch {
		case p.accept("."):
			n := p.next()
			if n.kind != "ident" && n.kind != "num" {
				p.fail("expected field name")
			}
			e = &ESel{e, n.text}
		case p.accept("["):
			i := p.top()
			p.expect("]")
			e = &EIndex{e, i}
		case p.accept("("):
			var args []Expr
			if !p.isOp(")") {
				for {
					args = append(args, p.top())
					if !p.accept(",") {
						break
					}
				}
			}
			p.expect(")")
			e = &ECall{e, args}
		default:
			return e
		}
	}
}

func (p *parser) primary() Expr {
	t := p.next()
	switch t.kind {
	case "num":
		s := strings.ReplaceAll(t.text, "_", "")
		v, ok := new(big.Int).SetString(s, 0)
		if !ok {
			p.p--
			p.fail("bad number %q", t.text)
		}
		return &ENum{v}
	case "rune":
		body := t.text[1 : len(t.text)-1]
		rs := []rune(body)
		if len(rs) == 1 {
			return &ENum{big.NewInt(int64(rs[0]))}
		}
		switch body {
		case "\\n":
			return &ENum{big.NewInt('\n')}
		case "\\t":
			return &ENum{big.NewInt('\t')}
		case "\\\\":
			return &ENum{big.NewInt('\\')}
		case "\\'":
			return &ENum{big.NewInt('\'')}
		}
		p.fail("unsupported rune literal %s", t.text)
	case "str":
		return &EStr{t.text}
	case "ident":
		if t.text == "forall" || t.text == "exists" {
			p.p-- // a quantifier in operand position extends as far right as possible
			return p.top()
		}
		return &EIdent{t.text}
	case "op":
		if t.text == "(" {
			e := p.top()
			p.expect(")")
			return e
		}
	}
	p.p--
	p.fail("unexpected %q", t.text)
	return nil
}
