package vc

import (
	"fmt"
	"go/types"

	"golang.org/x/tools/go/ssa"
)

type LogKind int

const (
	LDecl LogKind = iota
	LAssume
)

type LogItem struct {
	Kind LogKind
	Name string
	Sort Sort
	T    Term
	Note string
}

type Region struct {
	Base, Size Term // Size in bytes, as BV64 unsigned
	Fresh      bool
	Cond       Term // region exists only under this condition
}

// MemNames are the width-partitioned heap arrays (address -> value).
var MemNames = []string{"M8", "M16", "M32", "M64"}

func memSort(name string) Sort {
	idx := BV(PtrW, false)
	switch name {
	case "M8":
		return ArraySort(idx, BV(8, false))
	case "M16":
		return ArraySort(idx, BV(16, false))
	case "M32":
		return ArraySort(idx, BV(32, false))
	case "M64":
		return ArraySort(idx, BV(64, false))
	case "MF32":
		return ArraySort(idx, FPSort(32))
	case "MF64":
		return ArraySort(idx, FPSort(64))
	}
	panic("memSort " + name)
}

type State struct {
	regs    map[ssa.Value]Val
	cells   map[*ssa.Alloc]Val
	mem     map[string]Term
	log     []LogItem
	regions []Region
	ghost   map[string]Val
	locks   map[string]int // lock address term -> held count
	loopM   map[*ssa.BasicBlock]Term
	loopIn  map[*ssa.BasicBlock]bool
	writes  int // number of heap writes so far on this path
	epoch   int // number of whole-heap havocs so far on this path
	trace   []string
	run     *FnRun
	csAcq   *State // snapshot at the last lock acquisition
	csRel   *State // snapshot at the last lock release
}

func (st *State) clone() *State {
	n := &State{
		regs:    make(map[ssa.Value]Val, len(st.regs)+8),
		cells:   make(map[*ssa.Alloc]Val, len(st.cells)),
		mem:     make(map[string]Term, len(st.mem)),
		log:     st.log[:len(st.log):len(st.log)],
		regions: st.regions[:len(st.regions):len(st.regions)],
		ghost:   make(map[string]Val, len(st.ghost)),
		locks:   make(map[string]int, len(st.locks)),
		loopM:   make(map[*ssa.BasicBlock]Term, len(st.loopM)),
		loopIn:  make(map[*ssa.BasicBlock]bool, len(st.loopIn)),
		writes:  st.writes,
		epoch:   st.epoch,
		trace:   st.trace[:len(st.trace):len(st.trace)],
		run:     st.run,
		csAcq:   st.csAcq,
		csRel:   st.csRel,
	}
	for k, v := range st.regs {
		n.regs[k] = v
	}
	for k, v := range st.cells {
		n.cells[k] = cloneVal(v)
	}
	for k, v := range st.mem {
		n.mem[k] = v
	}
	for k, v := range st.ghost {
		n.ghost[k] = v
	}
	for k, v := range st.locks {
		n.locks[k] = v
	}
	for k, v := range st.loopM {
		n.loopM[k] = v
	}
	for k, v := range st.loopIn {
		n.loopIn[k] = v
	}
	return n
}

func (st *State) declare(name string, s Sort) Term {
	st.log = append(st.log, LogItem{Kind: LDecl, Name: name, Sort: s})
	if s.K == KInt {
		st.log = append(st.log, LogItem{Kind: LAssume, T: InTypeRange(Term{name, s}), Note: "def"})
	}
	return Term{name, s}
}

func (st *State) assume(t Term, note string) {
	if t.S == "true" {
		return
	}
	st.log = append(st.log, LogItem{Kind: LAssume, T: t, Note: note})
}

// name gives a long term a short name (sharing) so that VCs stay small.
func (st *State) name(hint string, t Term) Term {
	if len(t.S) <= 40 {
		return t
	}
	c := st.declare(st.run.freshName(hint), t.Sort)
	st.log = append(st.log, LogItem{Kind: LAssume, T: Ident(c, t), Note: "def"})
	return c
}

func (st *State) nameVal(hint string, v Val) Val {
	switch x := v.(type) {
	case Term:
		return st.name(hint, x)
	case *StructVal:
		for i := range x.F {
			x.F[i] = st.nameVal(hint+"_"+x.N[i], x.F[i])
		}
	}
	return v
}

func (st *State) memArr(name string) Term {
	if t, ok := st.mem[name]; ok {
		return t
	}
	panic("no mem array " + name)
}

func (st *State) addTrace(f string, a ...interface{}) {
	st.trace = append(st.trace, fmt.Sprintf(f, a...))
}

// memFor returns the heap array holding scalars of Go type t.
func (e *Engine) memFor(t types.Type) (string, Sort) {
	s, ok := e.scalarSort(t)
	if !ok {
		panic(unsupported("memory access of non-scalar " + t.String()))
	}
	switch s.K {
	case KBool:
		return "M8", s
	case KBV, KInt:
		return fmt.Sprintf("M%d", s.W), s
	case KFP:
		return fmt.Sprintf("M%d", s.W), s
	}
	panic("memFor")
}
