package vc

import (
	"go/types"

	"golang.org/x/tools/go/ssa"
)

// Monitor reasoning (C10/C11). Filled in by lockinv.go when lock invariants
// are declared; without declarations these are no-ops.

func (r *FnRun) checkLockedAccess(st *State, ins ssa.Instruction, addr Term, t types.Type, rw string) {
	if r.E.LockHook != nil {
		r.E.LockHook.access(r, st, ins, addr, t, rw)
	}
}

func (r *FnRun) lockGoalsAtExit(o *Outcome) {
	if r.E.LockHook != nil {
		r.E.LockHook.atExit(r, o)
	}
}

func (r *FnRun) lockOp(st *State, x *ssa.Call, k lockOpKind, args []Val) Val {
	if r.E.LockHook != nil {
		return r.E.LockHook.op(r, st, x, k, args)
	}
	panic(unsupported("lock operation without lock invariants"))
}

type lockHook interface {
	access(r *FnRun, st *State, ins ssa.Instruction, addr Term, t types.Type, rw string)
	atExit(r *FnRun, o *Outcome)
	op(r *FnRun, st *State, x *ssa.Call, k lockOpKind, args []Val) Val
}
