package vc

import (
	"fmt"
	"go/types"
	"strings"

	"golang.org/x/tools/go/ssa"
)

// ---------------------------------------------------------------------------
// Symbolic values of the executor.

type Val interface{}

// Scalars are Term.

type StructVal struct {
	T types.Type // named or struct type; nil for string/slice pseudo-structs
	N []string   // field names
	F []Val
}

type ArrayVal struct {
	T *types.Array
	E []Val
}

type TupleVal struct{ E []Val }

// LocalPtr points into a non-escaping local cell.
type LocalPtr struct {
	A    *ssa.Alloc
	Path []int
}

type IfaceVal struct {
	Dyn  types.Type // static dynamic type when built by MakeInterface, else nil
	V    Val
	Desc string
}

type FuncRef struct{ Fn *ssa.Function }

// ClosureVal is a function value built by MakeClosure.
type ClosureVal struct {
	Fn       *ssa.Function
	Bindings []Val
}

// UntypedInt is an integer literal in a contract expression before it meets a
// typed operand.
type UntypedInt struct{ V interface{ String() string } }

func (s *StructVal) Field(name string) (Val, bool) {
	for i, n := range s.N {
		if n == name {
			return s.F[i], true
		}
	}
	return nil, false
}

func (s *StructVal) clone() *StructVal {
	c := &StructVal{T: s.T, N: s.N, F: make([]Val, len(s.F))}
	for i, f := range s.F {
		c.F[i] = cloneVal(f)
	}
	return c
}

func cloneVal(v Val) Val {
	switch x := v.(type) {
	case *StructVal:
		return x.clone()
	case *ArrayVal:
		c := &ArrayVal{T: x.T, E: make([]Val, len(x.E))}
		for i, e := range x.E {
			c.E[i] = cloneVal(e)
		}
		return c
	}
	return v
}

const PtrW = 64

var (
	stringFields = []string{"data", "len"}
	sliceFields  = []string{"data", "len", "cap"}
)

func typeKey(t types.Type) string {
	return types.TypeString(t, func(p *types.Package) string { return p.Name() })
}

// scalarSort gives the SMT sort of a Go scalar type.
func (e *Engine) scalarSort(t types.Type) (Sort, bool) {
	switch u := t.Underlying().(type) {
	case *types.Basic:
		switch {
		case u.Info()&types.IsBoolean != 0:
			return BoolSort(), true
		case u.Info()&types.IsInteger != 0:
			w := int(e.Sizes.Sizeof(u)) * 8
			return BV(w, u.Info()&types.IsUnsigned == 0), true
		case u.Kind() == types.Float32:
			return FPSort(32), true
		case u.Kind() == types.Float64, u.Kind() == types.UntypedFloat:
			return FPSort(64), true
		case u.Kind() == types.UnsafePointer:
			return BV(PtrW, false), true
		}
	case *types.Pointer, *types.Chan, *types.Map, *types.Signature:
		return BV(PtrW, false), true
	}
	return Sort{}, false
}

// freshVal creates an unconstrained symbolic value of Go type t.
func (r *FnRun) freshVal(st *State, hint string, t types.Type) Val {
	if s, ok := r.E.scalarSort(t); ok {
		return st.declare(r.freshName(hint), s)
	}
	switch u := t.Underlying().(type) {
	case *types.Basic:
		if u.Info()&types.IsString != 0 {
			return &StructVal{N: stringFields, F: []Val{
				st.declare(r.freshName(hint+"_data"), BV(PtrW, false)),
				st.declare(r.freshName(hint+"_len"), BV(64, true)),
			}}
		}
		if u.Info()&types.IsComplex != 0 {
			w := 64
			if u.Kind() == types.Complex64 {
				w = 32
			}
			return &StructVal{N: []string{"re", "im"}, F: []Val{
				st.declare(r.freshName(hint+"_re"), FPSort(w)),
				st.declare(r.freshName(hint+"_im"), FPSort(w)),
			}}
		}
	case *types.Slice:
		return &StructVal{T: t, N: sliceFields, F: []Val{
			st.declare(r.freshName(hint+"_data"), BV(PtrW, false)),
			st.declare(r.freshName(hint+"_len"), BV(64, true)),
			st.declare(r.freshName(hint+"_cap"), BV(64, true)),
		}}
	case *types.Struct:
		sv := &StructVal{T: t}
		for i := 0; i < u.NumFields(); i++ {
			f := u.Field(i)
			sv.N = append(sv.N, f.Name())
			sv.F = append(sv.F, r.freshVal(st, hint+"_"+f.Name(), f.Type()))
		}
		return sv
	case *types.Array:
		if u.Len() <= 64 {
			av := &ArrayVal{T: u}
			for i := int64(0); i < u.Len(); i++ {
				av.E = append(av.E, r.freshVal(st, fmt.Sprintf("%s_%d", hint, i), u.Elem()))
			}
			return av
		}
	case *types.Interface:
		tab := st.declare(r.freshName(hint+"_itab"), BV(PtrW, false))
		dat := st.declare(r.freshName(hint+"_idata"), BV(PtrW, false))
		// representation invariant of interface values: a nil type word means the nil interface
		st.assume(Implies(Eq(tab, BVInt(0, PtrW, false)), Eq(dat, BVInt(0, PtrW, false))), "nil interface has a nil data word")
		return &StructVal{T: t, N: []string{"itab", "data"}, F: []Val{tab, dat}}
	case *types.Tuple:
		tv := &TupleVal{}
		for i := 0; i < u.Len(); i++ {
			tv.E = append(tv.E, r.freshVal(st, fmt.Sprintf("%s_%d", hint, i), u.At(i).Type()))
		}
		return tv
	}
	panic(unsupported("fresh value of type " + t.String()))
}

// zeroVal is Go's zero value of type t.
func (r *FnRun) zeroVal(t types.Type) Val {
	if s, ok := r.E.scalarSort(t); ok {
		return zeroOfSort(s)
	}
	switch u := t.Underlying().(type) {
	case *types.Basic:
		if u.Info()&types.IsString != 0 {
			return &StructVal{N: stringFields, F: []Val{BVInt(0, PtrW, false), BVInt(0, 64, true)}}
		}
		if u.Info()&types.IsComplex != 0 {
			w := 64
			if u.Kind() == types.Complex64 {
				w = 32
			}
			return &StructVal{N: []string{"re", "im"}, F: []Val{zeroOfSort(FPSort(w)), zeroOfSort(FPSort(w))}}
		}
	case *types.Slice:
		return &StructVal{T: t, N: sliceFields, F: []Val{BVInt(0, PtrW, false), BVInt(0, 64, true), BVInt(0, 64, true)}}
	case *types.Struct:
		sv := &StructVal{T: t}
		for i := 0; i < u.NumFields(); i++ {
			f := u.Field(i)
			sv.N = append(sv.N, f.Name())
			sv.F = append(sv.F, r.zeroVal(f.Type()))
		}
		return sv
	case *types.Array:
		if u.Len() <= 64 {
			av := &ArrayVal{T: u}
			for i := int64(0); i < u.Len(); i++ {
				av.E = append(av.E, r.zeroVal(u.Elem()))
			}
			return av
		}
	case *types.Interface:
		return &StructVal{T: t, N: []string{"itab", "data"}, F: []Val{BVInt(0, PtrW, false), BVInt(0, PtrW, false)}}
	}
	panic(unsupported("zero value of type " + t.String()))
}

func zeroOfSort(s Sort) Term {
	switch s.K {
	case KBool:
		return False
	case KBV, KInt:
		return BVInt(0, s.W, s.Signed)
	case KFP:
		if s.W == 32 {
			return Term{"(_ +zero 8 24)", s}
		}
		return Term{"(_ +zero 11 53)", s}
	}
	panic("zeroOfSort")
}

type unsupportedErr struct{ why string }

func unsupported(why string) unsupportedErr { return unsupportedErr{why} }

func describeVal(v Val) string {
	switch x := v.(type) {
	case Term:
		return x.S
	case *StructVal:
		var parts []string
		for i, f := range x.F {
			parts = append(parts, x.N[i]+":"+describeVal(f))
		}
		return "{" + strings.Join(parts, ", ") + "}"
	case *ArrayVal:
		var parts []string
		for _, f := range x.E {
			parts = append(parts, describeVal(f))
		}
		return "[" + strings.Join(parts, ", ") + "]"
	case *TupleVal:
		var parts []string
		for _, f := range x.E {
			parts = append(parts, describeVal(f))
		}
		return "(" + strings.Join(parts, ", ") + ")"
	case *IfaceVal:
		return "iface<" + x.Desc + ">"
	case *LocalPtr:
		return fmt.Sprintf("&%s%v", x.A.Name(), x.Path)
	case nil:
		return "nil"
	}
	return fmt.Sprintf("%T", v)
}
