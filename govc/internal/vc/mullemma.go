package vc

import (
	"fmt"
	"sort"
	"strings"
)

// Instances of valid facts about unsigned multiplication modulo 2^w, emitted
// for the (umulW a b) / (umulovfW a b) terms that occur in a query. umulW is
// the uninterpreted stand-in for bvmul, umulovfW for "the mathematical product
// does not fit in w bits". Every instance below is a theorem of machine
// arithmetic under that reading (listed in the evidence as assumed arithmetic
// lemmas; cross-checked at width 8 by `govc selftest`).
//
//  L1 mono:    !ovf(b,c) & a <=u b            =>  !ovf(a,c) & a*c <=u b*c
//  L2 bound:   a <u 2^i & b <u 2^j, i+j <= w  =>  !ovf(a,b) & (i+j<w => a*b <u 2^(i+j))
//  L4 ge:      !ovf(a,c) & c >=u 1            =>  a <=u a*c
//  L5 zero:    a = 0                          =>  a*c = 0 & !ovf(a,c)
//  L6 strict:  !ovf(b,c) & a <u b             =>  a*c + c <=u b*c   (and no wrap in a*c + c)
//  L7 one:     c = 1                          =>  a*c = a

type mulTerm struct{ a, b string }

func scanSexprArgs(s string, start int) (args []string, end int) {
	// s[start] is just after "(op " ; returns the top-level args until the matching ')'
	i := start
	for i < len(s) {
		for i < len(s) && s[i] == ' ' {
			i++
		}
		if i >= len(s) {
			return nil, -1
		}
		if s[i] == ')' {
			return args, i + 1
		}
		j := i
		if s[i] == '(' {
			depth := 0
			for j < len(s) {
				if s[j] == '(' {
					depth++
				} else if s[j] == ')' {
					depth--
					if depth == 0 {
						j++
						break
					}
				}
				j++
			}
		} else {
			for j < len(s) && s[j] != ' ' && s[j] != ')' {
				j++
			}
		}
		args = append(args, s[i:j])
		i = j
	}
	return nil, -1
}

var lemmaBounds = [][2]int{{32, 16}, {31, 16}, {16, 32}, {16, 31}, {47, 1}, {1, 47}, {62, 2}, {2, 62}, {40, 8}, {8, 40}}

func MulLemmas(text string, w int) string {
	op := fmt.Sprintf("(umul%d ", w)
	ov := fmt.Sprintf("(umulovf%d ", w)
	seen := map[mulTerm]bool{}
	var terms []mulTerm
	for _, o := range []string{op, ov} {
		idx := 0
		for {
			k := strings.Index(text[idx:], o)
			if k < 0 {
				break
			}
			p := idx + k + len(o)
			args, _ := scanSexprArgs(text, p)
			idx = p
			if len(args) != 2 {
				continue
			}
			if strings.Contains(args[0], "!") || strings.Contains(args[1], "!") {
				continue // mentions a bound variable
			}
			t := mulTerm{args[0], args[1]}
			if !seen[t] {
				seen[t] = true
				terms = append(terms, t)
			}
		}
	}
	if len(terms) == 0 {
		return ""
	}
	sort.Slice(terms, func(i, j int) bool { return terms[i].a+" "+terms[i].b < terms[j].a+" "+terms[j].b })
	if len(terms) > 16 {
		terms = terms[:16]
	}
	// L3 distributivity (valid modulo 2^w): a*c + b*c = (a+b)*c, introducing the
	// virtual term (a+b)*c for pairs of occurring terms that share a factor.
	var distrib []string
	base := len(terms)
	for i := 0; i < base; i++ {
		for j := i + 1; j < base; j++ {
			for _, f1 := range [][2]string{{terms[i].a, terms[i].b}, {terms[i].b, terms[i].a}} {
				for _, f2 := range [][2]string{{terms[j].a, terms[j].b}, {terms[j].b, terms[j].a}} {
					if f1[1] != f2[1] || f1[0] == f2[0] {
						continue
					}
					sum := fmt.Sprintf("(bvadd %s %s)", f1[0], f2[0])
					t := mulTerm{sum, f1[1]}
					if seen[t] || len(terms) >= 40 {
						continue
					}
					seen[t] = true
					terms = append(terms, t)
					distrib = append(distrib, fmt.Sprintf("(assert (= (bvadd %s %s) %s))\n",
						mulS(w, f1[0], f1[1]), mulS(w, f2[0], f2[1]), mulS(w, sum, f1[1])))
				}
			}
		}
	}
	var sb strings.Builder
	mul := func(a, b string) string {
		if a > b {
			a, b = b, a
		}
		return fmt.Sprintf("(umul%d %s %s)", w, a, b)
	}
	ovf := func(a, b string) string {
		if a > b {
			a, b = b, a
		}
		return fmt.Sprintf("(umulovf%d %s %s)", w, a, b)
	}
	c := func(v uint64) string { return fmt.Sprintf("(_ bv%d %d)", v, w) }
	sb.WriteString("; multiplication lemma instances\n")
	for _, d := range distrib {
		sb.WriteString(d)
	}
	for _, t := range terms {
		for _, xy := range [][2]string{{t.a, t.b}, {t.b, t.a}} {
			a, b := xy[0], xy[1]
			fmt.Fprintf(&sb, "(assert (=> (= %s %s) (and (= %s %s) (not %s))))\n", a, c(0), mul(a, b), c(0), ovf(a, b))
			fmt.Fprintf(&sb, "(assert (=> (= %s %s) (and (= %s %s) (not %s))))\n", b, c(1), mul(a, b), a, ovf(a, b))
			fmt.Fprintf(&sb, "(assert (=> (and (not %s) (bvuge %s %s)) (bvule %s %s)))\n", ovf(a, b), b, c(1), a, mul(a, b))
			if t.a == t.b {
				break
			}
		}
		if w == 64 {
			for _, bd := range lemmaBounds {
				i, j := bd[0], bd[1]
				concl := fmt.Sprintf("(not %s)", ovf(t.a, t.b))
				if i+j < w {
					concl = fmt.Sprintf("(and %s (bvult %s %s))", concl, mul(t.a, t.b), c(1<<uint(i+j)))
				}
				fmt.Fprintf(&sb, "(assert (=> (and (bvult %s %s) (bvult %s %s)) %s))\n", t.a, c(1<<uint(i)), t.b, c(1<<uint(j)), concl)
			}
		}
	}
	// pairs sharing a factor
	for i := 0; i < len(terms); i++ {
		for j := 0; j < len(terms); j++ {
			if i == j {
				continue
			}
			for _, f1 := range [][2]string{{terms[i].a, terms[i].b}, {terms[i].b, terms[i].a}} {
				for _, f2 := range [][2]string{{terms[j].a, terms[j].b}, {terms[j].b, terms[j].a}} {
					a, cc := f1[0], f1[1]
					b, c2 := f2[0], f2[1]
					if cc != c2 || a == b {
						continue
					}
					// L1: !ovf(b,c) & a <= b => !ovf(a,c) & a*c <= b*c
					fmt.Fprintf(&sb, "(assert (=> (and (not %s) (bvule %s %s)) (and (not %s) (bvule %s %s))))\n",
						ovf(b, cc), a, b, ovf(a, cc), mul(a, cc), mul(b, cc))
					// L6: !ovf(b,c) & a < b => a*c + c <= b*c & a*c <= a*c + c
					fmt.Fprintf(&sb, "(assert (=> (and (not %s) (bvult %s %s)) (and (bvule (bvadd %s %s) %s) (bvule %s (bvadd %s %s)))))\n",
						ovf(b, cc), a, b, mul(a, cc), cc, mul(b, cc), mul(a, cc), mul(a, cc), cc)
				}
			}
		}
	}
	return sb.String()
}

func mulS(w int, a, b string) string {
	if a > b {
		a, b = b, a
	}
	return fmt.Sprintf("(umul%d %s %s)", w, a, b)
}
