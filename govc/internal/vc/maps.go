package vc

import (
	"fmt"
	"go/types"

	"golang.org/x/tools/go/ssa"
)

// Go maps with scalar keys and values: per map type two heap arrays indexed
// by the map's address,
//   MV!<K>!<V> : map address -> (Array K V)      contents
//   MH!<K>!<V> : map address -> (Array K Bool)   which keys are present
// (trusted: Go's map implementation behaves as a finite map; for llgo-compiled
// programs that is property C06 itself, which is only partly decided).

type mapArrs struct {
	val, has string
	ks, vs   Sort
	vt       types.Type
}

func (r *FnRun) mapArrsOf(t types.Type) mapArrs {
	mt, ok := t.Underlying().(*types.Map)
	if !ok {
		panic(unsupported("not a map type: " + t.String()))
	}
	ks, ok1 := r.E.scalarSort(mt.Key())
	vs, ok2 := r.E.scalarSort(mt.Elem())
	if !ok1 || !ok2 {
		panic(unsupported("map with non-scalar key or value: " + t.String()))
	}
	r.E.Trusted["Go maps behave as finite maps (for llgo-compiled code this is property C06)"] = true
	suffix := mangle(ks.SMT()) + "!" + mangle(vs.SMT())
	return mapArrs{val: "MV!" + suffix, has: "MH!" + suffix, ks: ks, vs: vs, vt: mt.Elem()}
}

func (r *FnRun) mapLookupTerms(st *State, ma mapArrs, m, k Term) (val, has Term) {
	va := r.memArrS(st, ma.val, ArraySort(ma.ks, ma.vs))
	ha := r.memArrS(st, ma.has, ArraySort(ma.ks, BoolSort()))
	k = Term{k.S, ma.ks}
	inner := Term{app("select", va, m), ArraySort(ma.ks, ma.vs)}
	innerH := Term{app("select", ha, m), ArraySort(ma.ks, BoolSort())}
	notNil := Not(Eq(m, BVInt(0, PtrW, false)))
	has = And(notNil, Term{app("select", innerH, k), BoolSort()})
	raw := Term{app("select", inner, k), ma.vs}
	val = Ite(has, raw, zeroOfSort(ma.vs))
	return
}

func (r *FnRun) mapLookup(st *State, x *ssa.Lookup) Val {
	ma := r.mapArrsOf(x.X.Type())
	m := r.operand(st, x.X).(Term)
	k := r.operand(st, x.Index).(Term)
	val, has := r.mapLookupTerms(st, ma, m, k)
	val = st.name("mapval", val)
	if x.CommaOk {
		return &TupleVal{E: []Val{val, has}}
	}
	return val
}

func (r *FnRun) mapUpdate(st *State, x *ssa.MapUpdate) {
	ma := r.mapArrsOf(x.Map.Type())
	m := r.operand(st, x.Map).(Term)
	k := r.operand(st, x.Key).(Term)
	v := r.operand(st, x.Value).(Term)
	r.implicitCheck(st, x, "nilmap", Not(Eq(m, BVInt(0, PtrW, false))))
	r.mapStore(st, ma, m, Term{k.S, ma.ks}, Term{v.S, ma.vs}, True)
}

func (r *FnRun) mapStore(st *State, ma mapArrs, m, k, v, present Term) {
	va := r.memArrS(st, ma.val, ArraySort(ma.ks, ma.vs))
	ha := r.memArrS(st, ma.has, ArraySort(ma.ks, BoolSort()))
	inner := Term{app("select", va, m), ArraySort(ma.ks, ma.vs)}
	innerH := Term{app("select", ha, m), ArraySort(ma.ks, BoolSort())}
	nv := st.declare(r.freshName(ma.val), fieldArraySort(ArraySort(ma.ks, ma.vs)))
	st.log = append(st.log, LogItem{Kind: LAssume, T: Ident(nv, Term{app("store", va, m, Term{app("store", inner, k, v), inner.Sort}), nv.Sort}), Note: "def"})
	nh := st.declare(r.freshName(ma.has), fieldArraySort(ArraySort(ma.ks, BoolSort())))
	st.log = append(st.log, LogItem{Kind: LAssume, T: Ident(nh, Term{app("store", ha, m, Term{app("store", innerH, k, present), innerH.Sort}), nh.Sort}), Note: "def"})
	st.mem[ma.val] = nv
	st.mem[ma.has] = nh
	st.writes++
}

func (r *FnRun) makeMap(st *State, x *ssa.MakeMap) Val {
	ma := r.mapArrsOf(x.Type())
	m := st.declare(r.freshName("newmap"), BV(PtrW, false))
	r.registerFresh(st, m, BVInt(8, 64, false))
	st.assume(Not(Eq(m, BVInt(0, PtrW, false))), "make(map) is non-nil")
	ha := r.memArrS(st, ma.has, ArraySort(ma.ks, BoolSort()))
	empty := Term{fmt.Sprintf("((as const %s) false)", ArraySort(ma.ks, BoolSort()).SMT()), ArraySort(ma.ks, BoolSort())}
	nh := st.declare(r.freshName(ma.has), fieldArraySort(ArraySort(ma.ks, BoolSort())))
	st.log = append(st.log, LogItem{Kind: LAssume, T: Ident(nh, Term{app("store", ha, m, empty), nh.Sort}), Note: "def"})
	st.mem[ma.has] = nh
	return m
}
