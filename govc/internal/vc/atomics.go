package vc

import (
	"go/types"
	"strings"

	"golang.org/x/tools/go/ssa"
)

// sync/atomic operations (llgo's lowering of them is trusted to be atomic).
// A cell that is not protected by a currently held lock may be changed by
// other threads at any time: its value is havocked before every atomic
// operation. Ghost counters record what this function did to shared cells:
//   ghost(cas_dec)   successful CompareAndSwap(addr, v, v-1) with v != 0
//   ghost(cas_other) any other successful CompareAndSwap
//   ghost(add_one)   Add(addr, 1);  ghost(add_other) any other Add
//   ghost(stores)    Store / Swap
//   ghost(obs_zero)  1 iff the last atomic operation in the current critical section was a Load returning 0

const atomicPkg = "github.com/goplus/llgo/runtime/internal/lib/sync/atomic"

func init() {
	for _, ty := range []string{"Int32", "Int64", "Uint32", "Uint64", "Uintptr"} {
		ty := ty
		extraIntrinsics[atomicPkg+".Load"+ty] = func(r *FnRun, st *State, c ssa.CallInstruction, a []Val) (Val, bool) {
			cell := r.atomicCell(st, c, a[0])
			v := cell.load()
			// ghost(obs_zero): 1 iff the most recent atomic operation of this critical
			// section was a Load that returned 0 (reset by every lock operation and by
			// every other atomic operation): "the wait condition was checked under the lock"
			held := False
			for _, n := range st.locks {
				if n > 0 {
					held = True
				}
			}
			st.ghost["ghost:obs_zero"] = st.name("gh_obs_zero", Ite(And(held, Eq(v, zeroLike(v))), BVInt(1, 32, false), BVInt(0, 32, false)))
			return v, true
		}
		extraIntrinsics[atomicPkg+".Store"+ty] = func(r *FnRun, st *State, c ssa.CallInstruction, a []Val) (Val, bool) {
			cell := r.atomicCell(st, c, a[0])
			cell.store(a[1].(Term))
			st.ghost["ghost:obs_zero"] = BVInt(0, 32, false)
			r.ghostInc(st, "stores", True)
			return nil, true
		}
		extraIntrinsics[atomicPkg+".Add"+ty] = func(r *FnRun, st *State, c ssa.CallInstruction, a []Val) (Val, bool) {
			cell := r.atomicCell(st, c, a[0])
			cur := cell.load()
			d := a[1].(Term)
			nv := st.name("atomic_add", Add(cur, d))
			cell.store(nv)
			st.ghost["ghost:obs_zero"] = BVInt(0, 32, false)
			one := Eq(d, BVInt(1, d.Sort.W, d.Sort.Signed))
			r.ghostInc(st, "add_one", one)
			r.ghostInc(st, "add_other", Not(one))
			return nv, true
		}
		extraIntrinsics[atomicPkg+".CompareAndSwap"+ty] = func(r *FnRun, st *State, c ssa.CallInstruction, a []Val) (Val, bool) {
			cell := r.atomicCell(st, c, a[0])
			cur := cell.load()
			old, nw := a[1].(Term), a[2].(Term)
			ok := st.name("cas_ok", Eq(cur, old))
			cell.store(Ite(ok, nw, cur))
			st.ghost["ghost:obs_zero"] = BVInt(0, 32, false)
			dec := And(Eq(nw, Sub(old, BVInt(1, old.Sort.W, old.Sort.Signed))), Not(Eq(old, zeroLike(old))))
			r.ghostInc(st, "cas_dec", And(ok, dec))
			r.ghostInc(st, "cas_other", And(ok, Not(dec)))
			return ok, true
		}
	}
}

var extraIntrinsics = map[string]Intrinsic{}

type atomicCellRef struct {
	load  func() Term
	store func(Term)
}

func (r *FnRun) atomicCell(st *State, c ssa.CallInstruction, p Val) atomicCellRef {
	r.E.Trusted["sync/atomic operations are indivisible (llgo's lowering to LLVM atomics trusted); unprotected cells change arbitrarily between operations"] = true
	et := c.Common().Args[0].Type().Underlying().(*types.Pointer).Elem()
	var ref atomicCellRef
	stable := false
	switch x := p.(type) {
	case *FieldPtr:
		ref.load = func() Term { return r.loadField(st, x).(Term) }
		ref.store = func(t Term) { r.storeField(st, x, t, false) }
		if l := r.protectedBy(x.S, x.Key, x.Idx); l != nil {
			for k, n := range st.locks {
				if n > 0 && strings.HasPrefix(k, l.Type+"."+l.Field+"@") {
					stable = true
				}
			}
		}
	case Term:
		ref.load = func() Term { return r.loadAt(st, x, et).(Term) }
		ref.store = func(t Term) { r.storeAt(st, x, et, t, false) }
	default:
		panic(unsupported("atomic operation on local cell"))
	}
	if !stable {
		// interference: another thread may have written the cell
		ref.store(r.freshVal(st, "shared", et).(Term))
	}
	return ref
}

func (r *FnRun) ghostInc(st *State, name string, cond Term) {
	key := "ghost:" + name
	cur, ok := st.ghost[key].(Term)
	if !ok {
		cur = BVInt(0, 32, false)
	}
	st.ghost[key] = st.name("gh_"+name, Ite(cond, Add(cur, BVInt(1, 32, false)), cur))
}
