package vc

import (
	"encoding/json"
	"fmt"
	"go/types"
	"os"
	"path/filepath"
	"sort"
	"strings"
	"time"
)

// ---------------------------------------------------------------------------
// Property checks: configuration, orchestration, evidence.

type PropConfig struct {
	ID        string
	Modules   []Module
	Specs     []string                                          // spec files under /verif/specs
	Undecided []string                                          // clauses of the property this check does not decide
	Assume    []string                                          // standing modelling assumptions
	Gen       func(e *Engine, ld *Loaded) ([]FuncTarget, error) // contracts generated from the code at check time
	Extra     func(ck *Checker, rep *Report, opts *Options) []*Goal
	Post      func(ck *Checker, rep *Report, opts *Options)
	// Level/Explanation: evidence level when the property is not decided by proof
	// (default "proof"); "other" needs an explanation.
	Level       string
	Explanation string
}

type Options struct {
	RepoDir      string
	VerifDir     string
	Tier         string
	Seed         int
	Scratch      string
	Overlay      map[string][]byte
	OverlayFiles map[string]string // same overlay as file paths (for go test -overlay)
	KeepSMT      bool
	Verbose      bool
	OnlyFn       string
	Replay       bool
}

var PropConfigs = map[string]*PropConfig{}

func NewEngine() *Engine {
	return &Engine{
		Sizes:      types.SizesFor("gc", "amd64"),
		Contracts:  map[string]*FuncContract{},
		Specs:      NewSpecLib(),
		Intrinsics: DefaultIntrinsics(),
		MaxPaths:   20000,
		Trusted:    map[string]bool{},
		Notes:      map[string]bool{},
		AtCallHit:  map[string]bool{},
		LockHook:   monitor{},
		GhostFns:   map[string]*GhostFn{},
	}
}

// RunCheck runs the check of one property and returns the report and the
// process exit code (0 held, 1 violation, 2 check broken).
func RunCheck(id string, opts *Options) (*Report, int) {
	t0 := time.Now()
	pc := PropConfigs[id]
	rep := &Report{Property: id, Tier: opts.Tier, Seed: opts.Seed, Extra: map[string]interface{}{}}
	if pc == nil {
		rep.Broken = append(rep.Broken, "no check configured for "+id)
		return rep, 2
	}
	e := NewEngine()
	for _, sf := range pc.Specs {
		b, err := os.ReadFile(filepath.Join(opts.VerifDir, "specs", sf))
		if err != nil {
			rep.Broken = append(rep.Broken, err.Error())
			return rep, 2
		}
		if err := e.Specs.Load(sf, string(b)); err != nil {
			rep.Broken = append(rep.Broken, err.Error())
			return rep, 2
		}
	}
	timeout := 40 * time.Second
	if opts.Tier == "thorough" {
		timeout = 150 * time.Second
	}
	solver := NewSolver(filepath.Join(opts.Scratch, "smt-"+id), timeout, 16)
	solver.KeepSMT = opts.KeepSMT
	ck := &Checker{E: e, Solver: solver, Prop: id, Tier: opts.Tier}
	ReplaySolver = solver
	var goals []*Goal
	funcGoals := map[string]int{}
	for _, m := range pc.Modules {
		mm := m
		if !filepath.IsAbs(mm.Dir) {
			mm.Dir = filepath.Join(opts.RepoDir, mm.Dir)
		}
		ld, err := LoadModule(mm, opts.Overlay)
		if err != nil {
			rep.Broken = append(rep.Broken, "load: "+err.Error())
			return rep, 2
		}
		e.Prog = ld.Prog
		e.Ld = ld
		ContractOverlay = opts.Overlay
		targets, lemmas, err := LoadContracts(e, ld, filepath.Join(opts.VerifDir, "trusted"))
		if err != nil {
			rep.Broken = append(rep.Broken, "contracts: "+err.Error())
			return rep, 2
		}
		if pc.Gen != nil {
			gt, err := pc.Gen(e, ld)
			if err != nil {
				rep.Broken = append(rep.Broken, "contract generation: "+err.Error())
				return rep, 2
			}
			targets = append(targets, gt...)
		}
		for _, lm := range lemmas {
			if !hasProp(lm.Props, id) || (opts.OnlyFn != "" && !strings.Contains(lm.Name, opts.OnlyFn)) {
				continue
			}
			g, err := e.LemmaGoal(lm)
			if err != nil {
				rep.Broken = append(rep.Broken, "lemma "+lm.Name+": "+err.Error())
				continue
			}
			goals = append(goals, g)
			rep.Funcs = append(rep.Funcs, "lemma "+lm.Name)
		}
		for _, t := range targets {
			if !hasProp(t.C.Props, id) || t.C.Trusted {
				continue
			}
			if opts.OnlyFn != "" && !strings.Contains(t.C.Key, opts.OnlyFn) {
				continue
			}
			if t.Fn == nil {
				// function under contract disappeared or was renamed: its obligations are broken
				name := t.C.Pkg[strings.LastIndex(t.C.Pkg, "/")+1:] + "." + t.C.Key
				rep.Funcs = append(rep.Funcs, name+" (MISSING)")
				goals = append(goals, &Goal{Oblig: name + "/exists", Fn: name, Goal: False, Expect: "unsat",
					Prefix: nil, Detail: "function under contract not found in the working tree"})
				continue
			}
			ck.Targets = append(ck.Targets, t)
			run := e.VerifyFunc(t.Fn, t.C)
			rep.Funcs = append(rep.Funcs, run.FnName)
			for i, u := range run.Unsupp {
				// the contract cannot be checked against this body (construct outside
				// the supported subset, or the contract no longer applies to the code):
				// never on the unchanged tree; on a changed tree it is a failed obligation
				fmt.Printf("NOTE: %s: not verifiable: %s\n", run.FnName, u)
				if i < 3 {
					goals = append(goals, &Goal{Oblig: run.FnName + "/contract-applicable", Fn: run.FnName, Goal: False, Expect: "unsat",
						Detail: "not verifiable: " + u, Raw: "(set-logic ALL)\n(check-sat)\n; " + strings.ReplaceAll(u, "\n", " ") + "\n"})
				}
			}
			if len(run.Unsupp) > 0 && len(run.Goals) > 400 {
				// the function left the supported subset half-way: its proof is lost anyway,
				// do not spend solver time (and memory) on thousands of partial conditions
				run.Goals = run.Goals[:400]
			}
			n := 0
			for _, g := range run.Goals {
				if len(g.Props) > 0 && !hasProp(g.Props, id) {
					continue
				}
				goals = append(goals, g)
				if g.Expect == "unsat" {
					n++
				}
			}
			funcGoals[run.FnName] = n
			if n == 0 && len(t.C.Clauses) > 0 && len(run.Unsupp) == 0 {
				// (a function that left the supported subset already has its failed
				// contract-applicable obligation: a lost proof, not a broken check)
				rep.Broken = append(rep.Broken, run.FnName+": function under contract generated zero obligations")
			}
		}
	}
	if pc.Extra != nil {
		goals = append(goals, pc.Extra(ck, rep, opts)...)
	}
	rep.Obligs = ck.RunGoals(goals, timeout)
	if pc.Post != nil {
		pc.Post(ck, rep, opts)
	}
	rep.Trusted = sortedKeys(e.Trusted)
	rep.Notes = sortedKeys(e.Notes)
	rep.SolverStat = solver.Stats
	rep.SolverTime = solver.Time
	rep.Queries = solver.Queries
	rep.Assumptions = append(rep.Assumptions, pc.Assume...)
	rep.Undecided = pc.Undecided
	for n := range e.Specs.Used {
		rep.Notes = append(rep.Notes, "spec function used: "+n)
	}
	sort.Strings(rep.Notes)
	rep.Wall = time.Since(t0).Seconds()
	return rep, 0
}

// Finish prints the verdict lines, writes evidence and replay files and
// returns the exit code.
func Finish(rep *Report, opts *Options) int {
	id := rep.Property
	known, err := LoadKnownFindings(filepath.Join(opts.VerifDir, "known_findings.json"))
	if err != nil {
		rep.Broken = append(rep.Broken, "known_findings.json: "+err.Error())
	}
	violations := 0
	var knownHit []map[string]interface{}
	nProof, nDischarged, nCover, nCoverOK := 0, 0, 0, 0
	var samples []interface{}
	os.MkdirAll(filepath.Join(opts.VerifDir, "out", "replay"), 0o755)
	for _, o := range rep.Obligs {
		if o.Kind == "cover" {
			nCover++
			switch o.Status {
			case "discharged":
				nCoverOK++
			case "failed":
				rep.Broken = append(rep.Broken, "vacuity: "+o.Name+" is unsatisfiable (contradictory assumptions or unreachable path)")
			default:
				rep.Notes = append(rep.Notes, "cover check inconclusive: "+o.Name)
			}
			continue
		}
		if o.Status == "discharged" {
			nProof++
			nDischarged++
			if len(samples) < 6 && o.Goals > o.Trivial {
				samples = append(samples, map[string]interface{}{"obligation": o.Name, "goals": o.Goals, "solver_s": round3(o.Seconds), "back_ends": o.Solver})
			}
			continue
		}
		// failed or undecided
		var kf *KnownFinding
		for _, k := range known {
			if k.Property == id && k.Obligation == o.Name && k.Status == "known" {
				kf = k
			}
		}
		if kf != nil {
			o.Finding = kf
			fmt.Printf("KNOWN-FINDING: property=%s %s: %s\n", id, o.Name, kf.What)
			knownHit = append(knownHit, map[string]interface{}{"obligation": o.Name, "what": kf.What, "status": o.Status})
			continue
		}
		nProof++
		violations++
		path := writeReplay(rep, o, opts)
		suffix := ""
		switch {
		case o.FailRes == nil || o.FailRes.Status != "sat":
			suffix = " no-failing-input-found"
		case o.Replayed && o.Confirmed:
			suffix = " replayed=confirmed-on-real-code"
		case o.Replayed:
			suffix = " replayed=not-reproduced"
		default:
			suffix = " replayed=model-only"
		}
		fmt.Printf("VIOLATION property=%s replay=%s obligation=%s status=%s%s\n", id, path, o.Name, o.Status, suffix)
	}
	for _, bf := range rep.BoundedFail {
		var kf *KnownFinding
		for _, k := range known {
			if k.Property == id && k.Obligation == bf.Name && k.Status == "known" {
				kf = k
			}
		}
		inputs := bf.Inputs
		if kf != nil && kf.InputsFile != "" {
			listed := map[string]bool{}
			if b, err := os.ReadFile(filepath.Join(opts.VerifDir, kf.InputsFile)); err == nil {
				for _, l := range strings.Split(string(b), "\n") {
					listed[strings.TrimSpace(l)] = true
				}
			}
			var fresh []string
			for _, in := range inputs {
				if !listed[strings.TrimSpace(in)] {
					fresh = append(fresh, in)
				}
			}
			fmt.Printf("KNOWN-FINDING: property=%s %s: %s (%d of %d failing inputs listed in %s)\n", id, bf.Name, kf.What, len(inputs)-len(fresh), len(inputs), kf.InputsFile)
			knownHit = append(knownHit, map[string]interface{}{"obligation": bf.Name, "what": kf.What, "status": "failed (bounded)", "listed_failing_inputs": len(inputs) - len(fresh)})
			if len(fresh) == 0 {
				continue
			}
			inputs = fresh
			kf = nil
		}
		if kf != nil {
			fmt.Printf("KNOWN-FINDING: property=%s %s: %s\n", id, bf.Name, kf.What)
			knownHit = append(knownHit, map[string]interface{}{"obligation": bf.Name, "what": kf.What, "status": "failed (bounded)"})
			continue
		}
		violations++
		path := filepath.Join(opts.VerifDir, "out", "replay", id+"-"+mangle(bf.Name)+".json")
		doc := map[string]interface{}{"property": id, "obligation": bf.Name, "status": "failing inputs found by bounded execution of the real function", "failing_inputs": inputs}
		bb, _ := json.MarshalIndent(doc, "", " ")
		os.WriteFile(path, bb, 0o644)
		fmt.Printf("VIOLATION property=%s replay=%s obligation=%s status=failed replayed=confirmed-on-real-code\n", id, path, bf.Name)
	}
	for _, b := range rep.Broken {
		fmt.Printf("BROKEN: property=%s %s\n", id, b)
	}
	if nProof == 0 {
		rep.Broken = append(rep.Broken, "zero obligations")
		fmt.Printf("BROKEN: property=%s zero obligations generated\n", id)
	}
	// evidence
	backends := map[string]interface{}{}
	for k, v := range rep.SolverStat {
		backends[k] = map[string]interface{}{"decided": v, "seconds": round3(rep.SolverTime[k])}
	}
	var failed []interface{}
	for _, o := range rep.Obligs {
		if o.Kind != "cover" && o.Status != "discharged" && o.Finding == nil {
			failed = append(failed, map[string]interface{}{"obligation": o.Name, "status": o.Status})
		}
	}
	if len(samples) == 0 {
		samples = append(samples, "none")
	}
	level, explanation := "proof", "contract-based deductive verification: every obligation generated from the contracts on the real functions is discharged by an SMT solver; bounded stand-ins (if any) are listed under bounded and are not counted"
	if pc := PropConfigs[id]; pc != nil && pc.Level != "" {
		level, explanation = pc.Level, pc.Explanation
	}
	ev := map[string]interface{}{
		"property_id": id,
		"tier":        rep.Tier,
		"seed":        rep.Seed,
		"level":       level,
		"coverage": map[string]interface{}{
			"explanation":               explanation,
			"obligations":               nProof,
			"discharged":                nDischarged,
			"checker_cmd":               fmt.Sprintf("/verif/check %s --tier %s", id, rep.Tier),
			"trusted_base":              rep.Trusted,
			"functions_under_contract":  rep.Funcs,
			"back_ends":                 backends,
			"solver_queries":            rep.Queries,
			"samples":                   samples,
			"vacuity":                   map[string]interface{}{"cover_checks": nCover, "cover_ok": nCoverOK},
			"known_finding_obligations": knownHit,
			"failed_obligations":        failed,
			"bounded":                   rep.Bounded,
			"modelling_notes":           rep.Notes,
			"undecided_clauses":         rep.Undecided,
			"arithmetic":                "Go integers are fixed-width bit-vectors (wrap-around); symbolic*symbolic multiplication and division/remainder are uninterpreted functions shared by spec and implementation side",
			"extra":                     rep.Extra,
		},
		"assumptions": append(append([]string{}, rep.Assumptions...), rep.Trusted...),
		"wall_s":      round3(rep.Wall),
		"violations":  violations,
	}
	os.MkdirAll(filepath.Join(opts.VerifDir, "evidence"), 0o755)
	b, _ := json.MarshalIndent(ev, "", " ")
	os.WriteFile(filepath.Join(opts.VerifDir, "evidence", id+".json"), append(b, '\n'), 0o644)
	fmt.Printf("SUMMARY property=%s tier=%s functions=%d obligations=%d discharged=%d known=%d violations=%d cover=%d/%d queries=%d wall=%.1fs\n",
		id, rep.Tier, len(rep.Funcs), nProof, nDischarged, len(knownHit), violations, nCoverOK, nCover, rep.Queries, rep.Wall)
	switch {
	case violations > 0:
		return 1
	case len(rep.Broken) > 0:
		return 2
	}
	return 0
}

func (o *ObligResult) Extra(k string) string { return "" }

func round3(f float64) float64 { return float64(int64(f*1000+0.5)) / 1000 }

func writeReplay(rep *Report, o *ObligResult, opts *Options) string {
	name := rep.Property + "-" + mangle(o.Name) + ".json"
	path := filepath.Join(opts.VerifDir, "out", "replay", name)
	doc := map[string]interface{}{
		"property":   rep.Property,
		"obligation": o.Name,
		"status":     o.Status,
	}
	if o.Fail != nil {
		doc["detail"] = o.Fail.Detail
		doc["path_trace"] = o.Fail.Trace
		doc["goal"] = o.Fail.Goal.S
	}
	if o.FailRes != nil {
		doc["solver"] = o.FailRes.Solver
		doc["solver_status"] = o.FailRes.Status
		doc["solver_output"] = truncate(o.FailRes.Output, 20000)
		doc["model"] = truncate(o.FailRes.Model, 20000)
		if o.FailRes.Status == "sat" && o.Fail != nil && o.Fail.Replay != nil && rep.replays < 6 {
			rep.replays++
			rd, confirmed := o.Fail.Replay(o.FailRes.Model, opts)
			if rd != nil {
				doc["replay_on_real_code"] = rd
				if _, failed := rd["error"]; !failed {
					doc["replay_confirmed"] = confirmed
					o.Replayed = true
					o.Confirmed = confirmed
				}
			}
		}
		if o.FailRes.File != "" {
			if q, err := os.ReadFile(o.FailRes.File); err == nil {
				doc["smt_query"] = truncate(string(q), 200000)
			}
		}
	}
	b, _ := json.MarshalIndent(doc, "", " ")
	os.WriteFile(path, b, 0o644)
	return path
}

func truncate(s string, n int) string {
	if len(s) > n {
		return s[:n] + "...[truncated]"
	}
	return s
}
