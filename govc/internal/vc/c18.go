package vc

import (
	"fmt"
	"go/types"
	"strings"

	"golang.org/x/tools/go/ssa"
)

// C18: the contract of (*Loader).mergeConfig is GENERATED from the type
// targets.Config as it is in the working tree, and from the property's law:
//   string field (other than Name): dst.F = src.F if src.F != "" else old dst.F
//   bool field:                     dst.F = src.F || old dst.F
//   []string field:                 dst.F = old dst.F ++ src.F   (element-wise)
//   Name and all of *src unchanged; nothing else written.
// A field added to Config and forgotten in mergeConfig, a dropped `if`, or
// assignment instead of append fails the obligation of that field.

func init() {
	PropConfigs["C18"] = &PropConfig{ID: "C18",
		Modules: []Module{{Dir: ".", Patterns: []string{"./internal/targets"}}},
		Specs:   []string{"common.smt2"},
		Gen:     genC18,
		Undecided: []string{
			"resolution order over the inheritance forest (resolveInheritance/Load) and the cyclic-parent clause: see DESIGN.md C18",
			"JSON decoding of the shipped target files (encoding/json, trusted)",
		},
		Assume: []string{"strings are compared by representation (data pointer, length); the merge law only moves whole string values",
			"the backing arrays of dst's list fields are pairwise disjoint and disjoint from src's arrays and from both Config objects (holds in resolveInheritance: dst is a fresh Config)"},
	}
}

func genC18(e *Engine, ld *Loaded) ([]FuncTarget, error) {
	var pkg *ssa.Package
	for _, p := range ld.SPkgs {
		if p != nil && strings.HasSuffix(p.Pkg.Path(), "/internal/targets") {
			pkg = p
		}
	}
	if pkg == nil {
		return nil, fmt.Errorf("package internal/targets not loaded")
	}
	obj := pkg.Pkg.Scope().Lookup("Config")
	if obj == nil {
		return nil, fmt.Errorf("type Config not found")
	}
	stt, ok := obj.Type().Underlying().(*types.Struct)
	if !ok {
		return nil, fmt.Errorf("Config is not a struct")
	}
	fn := ResolveFunc(pkg, "(*Loader).mergeConfig")
	fc := &FuncContract{Key: "(*Loader).mergeConfig", Pkg: pkg.Pkg.Path(), Props: []string{"C18"}, Arith: "int", Opts: map[string]string{},
		File: "generated from targets.Config by govc (c18.go)"}
	add := func(kind, label, src string) error {
		ex, err := ParseExpr(src)
		if err != nil {
			return err
		}
		fc.Clauses = append(fc.Clauses, &Clause{Kind: kind, Label: label, Src: src, E: ex, File: fc.File, Props: []string{"C18"}})
		return nil
	}
	size := e.Sizes.Sizeof(stt)
	var errs []string
	chk := func(err error) {
		if err != nil {
			errs = append(errs, err.Error())
		}
	}
	chk(add("requires", "objects", fmt.Sprintf("dst != nil && src != nil && disjoint(dst, %d, src, %d)", size, size)))
	var lists []string
	for i := 0; i < stt.NumFields(); i++ {
		f := stt.Field(i)
		if sl, ok := f.Type().Underlying().(*types.Slice); ok {
			if b, ok := sl.Elem().Underlying().(*types.Basic); ok && b.Info()&types.IsString != 0 {
				lists = append(lists, f.Name())
			}
		}
	}
	reg := func(o, f string) (string, string) { return o + "." + f + ".data", "cap(" + o + "." + f + ")*16" }
	for _, f := range lists {
		for _, o := range []string{"dst", "src"} {
			p, n := reg(o, f)
			chk(add("requires", "wf-"+o+"-"+f, fmt.Sprintf("0 <= len(%s.%s) && len(%s.%s) <= cap(%s.%s) && cap(%s.%s) < 1<<40 && valid(%s, %s)", o, f, o, f, o, f, o, f, p, n)))
			chk(add("requires", "sep-"+o+"-"+f, fmt.Sprintf("disjoint(%s, %s, dst, %d) && disjoint(%s, %s, src, %d)", p, n, size, p, n, size)))
		}
		dp, dn := reg("dst", f)
		for _, g := range lists {
			sp, sn := reg("src", g)
			chk(add("requires", "sep-"+f+"-src-"+g, fmt.Sprintf("disjoint(%s, %s, %s, %s)", dp, dn, sp, sn)))
			if g != f {
				gp, gn := reg("dst", g)
				chk(add("requires", "sep-"+f+"-dst-"+g, fmt.Sprintf("disjoint(%s, %s, %s, %s)", dp, dn, gp, gn)))
			}
		}
		fc.Modifies = append(fc.Modifies, fmt.Sprintf("bytes(dst.%s.data + uintptr(len(dst.%s)*16), (cap(dst.%s) - len(dst.%s))*16)", f, f, f, f))
	}
	fc.Modifies = append(fc.Modifies, "object(dst)")
	for i := 0; i < stt.NumFields(); i++ {
		f := stt.Field(i)
		n := f.Name()
		label := "field[" + n + "]"
		switch u := f.Type().Underlying().(type) {
		case *types.Basic:
			switch {
			case n == "Name":
				chk(add("ensures", label, "same(dst.Name, old(dst.Name))"))
			case u.Info()&types.IsString != 0:
				chk(add("ensures", label, fmt.Sprintf("same(dst.%s, (old(src.%s) != \"\") ? old(src.%s) : old(dst.%s))", n, n, n, n)))
			case u.Info()&types.IsBoolean != 0:
				chk(add("ensures", label, fmt.Sprintf("dst.%s == (old(src.%s) || old(dst.%s))", n, n, n)))
			default:
				chk(add("ensures", label+".unsupported-kind", "false"))
			}
		case *types.Slice:
			isList := false
			for _, l := range lists {
				if l == n {
					isList = true
				}
			}
			if !isList {
				chk(add("ensures", label+".unsupported-kind", "false"))
				continue
			}
			chk(add("ensures", label+".len", fmt.Sprintf("len(dst.%s) == old(len(dst.%s)) + old(len(src.%s))", n, n, n)))
			chk(add("ensures", label+".own", fmt.Sprintf("forall i int :: 0 <= i && i < old(len(dst.%s)) ==> same(dst.%s[i], old(dst.%s[i]))", n, n, n)))
			chk(add("ensures", label+".appended", fmt.Sprintf("forall j int :: 0 <= j && j < old(len(src.%s)) ==> same(dst.%s[old(len(dst.%s)) + j], old(src.%s[j]))", n, n, n, n)))
		default:
			// a new kind of field forces a conscious contract update
			chk(add("ensures", label+".unsupported-kind", "false"))
		}
	}
	if len(errs) > 0 {
		return nil, fmt.Errorf("%s", strings.Join(errs, "; "))
	}
	if fn != nil {
		e.Contracts[fullName(fn)] = fc
	}
	return []FuncTarget{{Fn: fn, C: fc}}, nil
}
