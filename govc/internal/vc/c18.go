package vc

import (
	"sort"
	"go/ast"
	"regexp"
	"fmt"
	"go/types"
	"strings"

	"golang.org/x/tools/go/ssa"
)

// C18: the contract of (*Loader).mergeConfig is GENERATED from the type
// targets.Config as it is in the working tree, and from the property's law:
//   string field (other than Name): dst.F = src.F if src.F != "" else old dst.F
//   bool field:                     dst.F = src.F || old dst.F
//   []string field:                 dst.F = old dst.F ++ src.F   (element-wise)
//   Name and all of *src unchanged; nothing else written.
// A field added to Config and forgotten in mergeConfig, a dropped `if`, or
// assignment instead of append fails the obligation of that field.

func init() {
	PropConfigs["C18"] = &PropConfig{ID: "C18",
		Modules: []Module{{Dir: ".", Patterns: []string{"./internal/targets"}}},
		Specs:   []string{"common.smt2"},
		Gen:     genC18,
		Post: func(ck *Checker, rep *Report, opts *Options) {
			if opts.OnlyFn != "" {
				return
			}
			runBounded(rep, opts, "c18", map[string]string{"internal/targets/zz_verif_resolve_test.go": "harness/c18_resolve_test.go"}, []string{"./internal/targets/"}, "TestZZVerifResolve",
				[]string{"VERIF_C18=1"}, 2, "resolution-matches-the-law",
				"the real Loader.Load on every target of every inheritance graph of two families, compared with an independent resolver written from the property statement: graphs3 = 3 targets each inheriting from any sequence of length 0..2 over {a, b, c, <missing>} (9261 graphs; cyclic ones loaded in a child process so that a crash or hang is reported with its graph); dags4 = 4 targets each inheriting from any sequence of length 0..2 over the earlier ones (273 DAGs: chains, diamonds, shared ancestors at different depths, a parent named twice); every successful Load repeated on the same Loader")
		},
		Undecided: []string{
			"resolution order over the inheritance forest and the missing/cyclic-parent clause beyond the enumerated graph families (bounded stand-in only; the contracts decide the merge law, the memory discipline of the fold and error propagation)",
			"JSON decoding of the shipped target files (encoding/json, trusted)",
		},
		Assume: []string{"strings are compared by representation (data pointer, length); the merge law only moves whole string values",
			"the backing arrays of dst's list fields are pairwise disjoint and disjoint from src's arrays and from both Config objects (holds in resolveInheritance: dst is a fresh Config)"},
	}
}

func genC18(e *Engine, ld *Loaded) ([]FuncTarget, error) {
	var pkg *ssa.Package
	for _, p := range ld.SPkgs {
		if p != nil && strings.HasSuffix(p.Pkg.Path(), "/internal/targets") {
			pkg = p
		}
	}
	if pkg == nil {
		return nil, fmt.Errorf("package internal/targets not loaded")
	}
	obj := pkg.Pkg.Scope().Lookup("Config")
	if obj == nil {
		return nil, fmt.Errorf("type Config not found")
	}
	stt, ok := obj.Type().Underlying().(*types.Struct)
	if !ok {
		return nil, fmt.Errorf("Config is not a struct")
	}
	fn := ResolveFunc(pkg, "(*Loader).mergeConfig")
	fc := &FuncContract{Key: "(*Loader).mergeConfig", Pkg: pkg.Pkg.Path(), Props: []string{"C18"}, Arith: "int", Opts: map[string]string{},
		File: "generated from targets.Config by govc (c18.go)"}
	add := func(kind, label, src string) error {
		ex, err := ParseExpr(src)
		if err != nil {
			return err
		}
		fc.Clauses = append(fc.Clauses, &Clause{Kind: kind, Label: label, Src: src, E: ex, File: fc.File, Props: []string{"C18"}})
		return nil
	}
	size := e.Sizes.Sizeof(stt)
	var errs []string
	chk := func(err error) {
		if err != nil {
			errs = append(errs, err.Error())
		}
	}
	chk(add("requires", "objects", fmt.Sprintf("dst != nil && src != nil && disjoint(dst, %d, src, %d)", size, size)))
	var lists []string
	for i := 0; i < stt.NumFields(); i++ {
		f := stt.Field(i)
		if sl, ok := f.Type().Underlying().(*types.Slice); ok {
			if b, ok := sl.Elem().Underlying().(*types.Basic); ok && b.Info()&types.IsString != 0 {
				lists = append(lists, f.Name())
			}
		}
	}
	reg := func(o, f string) (string, string) { return o + "." + f + ".data", "cap(" + o + "." + f + ")*16" }
	for _, f := range lists {
		for _, o := range []string{"dst", "src"} {
			p, n := reg(o, f)
			chk(add("requires", "wf-"+o+"-"+f, fmt.Sprintf("0 <= len(%s.%s) && len(%s.%s) <= cap(%s.%s) && cap(%s.%s) < 1<<40 && (cap(%s.%s) > 0 ==> valid(%s, %s))", o, f, o, f, o, f, o, f, o, f, p, n)))
			if o == "dst" {
				chk(add("requires", "sep-"+o+"-"+f, fmt.Sprintf("disjoint(%s, %s, dst, %d) && disjoint(%s, %s, src, %d)", p, n, size, p, n, size)))
			} else {
				chk(add("requires", "sep-"+o+"-"+f, fmt.Sprintf("disjoint(%s, %s, dst, %d)", p, n, size)))
			}
		}
		dp, dn := reg("dst", f)
		for _, g := range lists {
			sp, sn := reg("src", g)
			chk(add("requires", "sep-"+f+"-src-"+g, fmt.Sprintf("disjoint(%s, %s, %s, %s)", dp, dn, sp, sn)))
			if g != f {
				gp, gn := reg("dst", g)
				chk(add("requires", "sep-"+f+"-dst-"+g, fmt.Sprintf("disjoint(%s, %s, %s, %s)", dp, dn, gp, gn)))
			}
		}
		fc.Modifies = append(fc.Modifies, fmt.Sprintf("bytes(dst.%s.data + uintptr(len(dst.%s)*16), (cap(dst.%s) - len(dst.%s))*16)", f, f, f, f))
	}
	fc.Modifies = append(fc.Modifies, "object(dst)")
	for i := 0; i < stt.NumFields(); i++ {
		f := stt.Field(i)
		n := f.Name()
		label := "field[" + n + "]"
		switch u := f.Type().Underlying().(type) {
		case *types.Basic:
			switch {
			case n == "Name":
				chk(add("ensures", label, "same(dst.Name, old(dst.Name))"))
			case u.Info()&types.IsString != 0:
				chk(add("ensures", label, fmt.Sprintf("same(dst.%s, (old(src.%s) != \"\") ? old(src.%s) : old(dst.%s))", n, n, n, n)))
			case u.Info()&types.IsBoolean != 0:
				chk(add("ensures", label, fmt.Sprintf("dst.%s == (old(src.%s) || old(dst.%s))", n, n, n)))
			default:
				chk(add("ensures", label+".unsupported-kind", "false"))
			}
		case *types.Slice:
			isList := false
			for _, l := range lists {
				if l == n {
					isList = true
				}
			}
			if !isList {
				chk(add("ensures", label+".unsupported-kind", "false"))
				continue
			}
			chk(add("ensures", label+".len", fmt.Sprintf("len(dst.%s) == old(len(dst.%s)) + old(len(src.%s))", n, n, n)))
			chk(add("ensures", label+".own", fmt.Sprintf("forall i int :: 0 <= i && i < old(len(dst.%s)) ==> same(dst.%s[i], old(dst.%s[i]))", n, n, n)))
			chk(add("ensures", label+".appended", fmt.Sprintf("forall j int :: 0 <= j && j < old(len(src.%s)) ==> same(dst.%s[old(len(dst.%s)) + j], old(src.%s[j]))", n, n, n, n)))
		default:
			// a new kind of field forces a conscious contract update
			chk(add("ensures", label+".unsupported-kind", "false"))
		}
	}
	// what callers need to go on merging into dst: its lists stay well formed,
	// each backing array is the old one or was allocated by this call, and they
	// stay pairwise disjoint and disjoint from the object itself
	for i, f := range lists {
		chk(add("ensures", "wf-after["+f+"]", fmt.Sprintf("0 <= len(dst.%s) && len(dst.%s) <= cap(dst.%s) && cap(dst.%s) < 1<<40", f, f, f, f)))
		chk(add("ensures", "own-after["+f+"]", fmt.Sprintf("!(dst.%s.data == old(dst.%s.data) && cap(dst.%s) == old(cap(dst.%s))) ==> mine(dst.%s.data, cap(dst.%s)*16)", f, f, f, f, f, f)))
		chk(add("ensures", "sep-after["+f+"]", fmt.Sprintf("disjoint(dst.%s.data, cap(dst.%s)*16, dst, %d)", f, f, size)))
		for _, g := range lists[i+1:] {
			chk(add("ensures", "sep-after["+f+","+g+"]", fmt.Sprintf("disjoint(dst.%s.data, cap(dst.%s)*16, dst.%s.data, cap(dst.%s)*16)", f, f, g, g)))
		}
	}
	if len(errs) > 0 {
		return nil, fmt.Errorf("%s", strings.Join(errs, "; "))
	}
	if fn != nil {
		e.Contracts[fullName(fn)] = fc
	}
	targets := []FuncTarget{{Fn: fn, C: fc}}
	more, err := genC18Resolve(e, pkg, lists, size)
	if err != nil {
		return nil, err
	}
	return append(targets, more...), nil
}

// genC18Resolve generates the contracts of resolveInheritance / Load / LoadRaw:
// memory discipline of the fold (every mergeConfig call meets mergeConfig's
// separation preconditions: the result's lists are owned by the invocation,
// the parents' lists are not), errors are propagated, the result keeps the
// description's name. The cyclic-parent clause and the fold ORDER are not
// decided here.
func genC18Resolve(e *Engine, pkg *ssa.Package, lists []string, size int64) ([]FuncTarget, error) {
	var errs []string
	mk := func(key string, trusted bool) *FuncContract {
		return &FuncContract{Key: key, Pkg: pkg.Pkg.Path(), Props: []string{"C18"}, Arith: "int", Opts: map[string]string{}, Trusted: trusted,
			File: "generated from targets.Config by govc (c18.go)"}
	}
	add := func(fc *FuncContract, kind, label, src string, loop int) {
		ex, err := ParseExpr(src)
		if err != nil {
			errs = append(errs, err.Error())
			return
		}
		fc.Clauses = append(fc.Clauses, &Clause{Kind: kind, Label: label, Src: src, E: ex, File: fc.File, Props: []string{"C18"}, Loop: loop})
	}
	rawObj := pkg.Pkg.Scope().Lookup("RawConfig")
	if rawObj == nil {
		return nil, fmt.Errorf("type RawConfig not found")
	}
	rawSize := e.Sizes.Sizeof(rawObj.Type())
	// cfgok(c, pred): the lists of *c are well formed and their arrays satisfy pred (valid / notmine / mine)
	cfgok := func(c, pred string) string {
		var parts []string
		for _, f := range lists {
			parts = append(parts, fmt.Sprintf("0 <= len(%s.%s) && len(%s.%s) <= cap(%s.%s) && cap(%s.%s) < 1<<40 && (cap(%s.%s) > 0 ==> %s(%s.%s.data, cap(%s.%s)*16))", c, f, c, f, c, f, c, f, c, f, pred, c, f, c, f))
		}
		return strings.Join(parts, " && ")
	}
	listok := func(l, pred string) string {
		return fmt.Sprintf("0 <= len(%s) && len(%s) <= cap(%s) && cap(%s) < 1<<40 && (cap(%s) > 0 ==> %s(%s.data, cap(%s)*16))", l, l, l, l, l, pred, l, l)
	}
	var out []FuncTarget
	reg := func(fc *FuncContract) {
		fn := ResolveFunc(pkg, fc.Key)
		if fn != nil {
			e.Contracts[fullName(fn)] = fc
		}
		if !fc.Trusted {
			out = append(out, FuncTarget{Fn: fn, C: fc})
		}
	}
	// LoadRaw: file system + encoding/json + cache (trusted)
	lr := mk("(*Loader).LoadRaw", true)
	add(lr, "ensures", "ok", fmt.Sprintf("result1.itab == nil ==> result0 != nil && notmine(result0, %d) && %s && %s", rawSize, cfgok("result0.Config", "notmine"), listok("result0.Inherits", "notmine")), 0)
	lr.Modifies = []string{"nothing"}
	reg(lr)
	// Load (and, where the working tree has it, the internal entry point `load` that
	// carries the chain of targets being resolved): assumed at the recursive call, and
	// verified against the same contract. When the entry point walks a chain of the
	// targets being resolved, reaching the chain's head again must be an error (the
	// whole chain, and termination, are decided by the bounded graph families only).
	entries := []string{"(*Loader).Load"}
	if fn := ResolveFunc(pkg, "(*Loader).load"); fn != nil {
		entries = append(entries, "(*Loader).load")
	}
	for _, key := range entries {
		ld := mk(key, false)
		recv, nameP, chainP := "l", "name", ""
		if fn := ResolveFunc(pkg, key); fn != nil {
			if len(fn.Params) >= 2 {
				recv, nameP = fn.Params[0].Name(), fn.Params[1].Name()
			}
			if len(fn.Params) == 3 {
				if pt, ok := fn.Params[2].Type().Underlying().(*types.Pointer); ok {
					if stt, ok := pt.Elem().Underlying().(*types.Struct); ok && stt.NumFields() >= 1 {
						if b, ok := stt.Field(0).Type().Underlying().(*types.Basic); ok && b.Info()&types.IsString != 0 {
							chainP = fn.Params[2].Name() + "." + stt.Field(0).Name()
							cp := fn.Params[2].Name()
							add(ld, "ensures", "reached-again-is-an-error", fmt.Sprintf("%s != nil && old(%s) == %s ==> result1.itab != nil", cp, chainP, nameP), 0)
							// the walk: once past the head of the chain, the head did not match
							if lv := firstLoopVar(fn); lv != "" {
								add(ld, "invariant", "head-did-not-match", fmt.Sprintf("%s != nil && %s != %s ==> %s != %s", cp, lv, cp, chainP, nameP), 1)
							}
						}
					}
				}
			}
			for i := range fn.Blocks {
				_ = i
			}
			if hasLoop(fn) {
				add(ld, "invariant", "walk", "true", 1)
			}
			_ = chainP
		}
		add(ld, "requires", "loader", recv+" != nil", 0)
		add(ld, "ensures", "ok", fmt.Sprintf("result1.itab == nil ==> result0 != nil && %s", cfgok("result0", "valid")), 0)
		add(ld, "ensures", "error-xor-result", "result1.itab != nil ==> result0 == nil", 0)
		ld.Modifies = []string{"nothing"}
		reg(ld)
		// at call sites the result is memory the caller did not allocate
		ldc := mk(key, true)
		add(ldc, "ensures", "ok", fmt.Sprintf("result1.itab == nil ==> result0 != nil && notmine(result0, %d) && %s", size, cfgok("result0", "notmine")), 0)
		add(ldc, "ensures", "error-xor-result", "result1.itab != nil ==> result0 == nil", 0)
		ldc.Modifies = []string{"nothing"}
		if fn := ResolveFunc(pkg, ldc.Key); fn != nil {
			e.Contracts[fullName(fn)] = ldc
		}
	}
	// helpers that walk the chain of targets being resolved on behalf of the entry point
	// (`func (c *inheritChain) contains(name string) bool` after an "extract helper"
	// refactoring): same walk invariant, and "the head matches => true"
	if lf := ResolveFunc(pkg, "(*Loader).load"); lf != nil && len(lf.Params) == 3 {
		chainT := lf.Params[2].Type()
		if pt, ok := chainT.Underlying().(*types.Pointer); ok {
			if stt, ok := pt.Elem().Underlying().(*types.Struct); ok && stt.NumFields() >= 1 {
				nameF := stt.Field(0).Name()
				var cands []*ssa.Function
				for _, mem := range pkg.Members {
					if f, ok := mem.(*ssa.Function); ok {
						cands = append(cands, f)
					}
				}
				ms := pkg.Prog.MethodSets.MethodSet(chainT)
				for i := 0; i < ms.Len(); i++ {
					if f := pkg.Prog.MethodValue(ms.At(i)); f != nil && f.Pkg == pkg {
						cands = append(cands, f)
					}
				}
				sort.Slice(cands, func(i, j int) bool { return cands[i].String() < cands[j].String() })
				for _, f := range cands {
					if f == lf || len(f.Params) != 2 || !types.Identical(f.Params[0].Type(), chainT) || !hasLoop(f) {
						continue
					}
					if b, ok := f.Params[1].Type().Underlying().(*types.Basic); !ok || b.Info()&types.IsString == 0 {
						continue
					}
					res := f.Signature.Results()
					if res.Len() != 1 {
						continue
					}
					if b, ok := res.At(0).Type().Underlying().(*types.Basic); !ok || b.Info()&types.IsBoolean == 0 {
						continue
					}
					key := f.Name()
					if f.Signature.Recv() != nil {
						key = "(*" + pt.Elem().(*types.Named).Obj().Name() + ")." + f.Name()
					}
					hc := mk(key, false)
					cp, np := f.Params[0].Name(), f.Params[1].Name()
					head, lv := cp, firstLoopVar(f)
					if lv == "" {
						head, lv = "old("+cp+")", cp
					}
					add(hc, "invariant", "walk", "true", 1)
					add(hc, "invariant", "head-did-not-match", fmt.Sprintf("%s != nil && %s != %s ==> %s.%s != %s", head, lv, head, head, nameF, np), 1)
					add(hc, "ensures", "head-matches", fmt.Sprintf("old(%s) != nil && old(%s.%s) == %s ==> result", cp, cp, nameF, np), 0)
					hc.Modifies = []string{"nothing"}
					hc.Arith = "bv"
					reg(hc)
				}
			}
		}
	}
	recvName := func(key string) string {
		if fn := ResolveFunc(pkg, key); fn != nil && fn.Signature.Recv() != nil {
			return fn.Signature.Recv().Name()
		}
		return "c"
	}
	hi := mk("(*RawConfig).HasInheritance", false)
	rn := recvName(hi.Key)
	add(hi, "requires", "recv", rn+" != nil", 0)
	add(hi, "ensures", "def", "result <==> len("+rn+".Inherits) > 0", 0)
	hi.Modifies = []string{"nothing"}
	hi.Arith = "bv"
	reg(hi)
	gi := mk("(*RawConfig).GetInherits", false)
	rn = recvName(gi.Key)
	add(gi, "requires", "recv", rn+" != nil", 0)
	add(gi, "ensures", "def", "same(result, "+rn+".Inherits)", 0)
	gi.Modifies = []string{"nothing"}
	gi.Arith = "bv"
	reg(gi)
	// resolveInheritance. The names used below are those of the pinned source; the
	// clauses are rewritten to the names the working tree uses: parameters by
	// position, the accumulator as "the first argument of the mergeConfig calls".
	acc, recvN, rawN := "result", "l", "raw"
	if fn := ResolveFunc(pkg, "(*Loader).resolveInheritance"); fn != nil {
		if len(fn.Params) >= 2 {
			recvN, rawN = fn.Params[0].Name(), fn.Params[1].Name()
		}
		if syn, ok := fn.Syntax().(*ast.FuncDecl); ok && syn.Body != nil {
			found := false
			ast.Inspect(syn.Body, func(n ast.Node) bool {
				call, ok := n.(*ast.CallExpr)
				if !ok || found {
					return !found
				}
				if sel, ok := call.Fun.(*ast.SelectorExpr); ok && sel.Sel.Name == "mergeConfig" && len(call.Args) == 2 {
					if id, ok := call.Args[0].(*ast.Ident); ok {
						acc, found = id.Name, true
					}
				}
				return true
			})
		}
	}
	reAcc, reRecv, reRaw := regexp.MustCompile(`\bresult\b`), regexp.MustCompile(`\bl\b`), regexp.MustCompile(`\braw\b`)
	add0 := add
	add = func(fc *FuncContract, kind, label, src string, loop int) {
		if fc.Key == "(*Loader).resolveInheritance" {
			src = reRaw.ReplaceAllString(reRecv.ReplaceAllString(reAcc.ReplaceAllString(src, "ACC__"), recvN), rawN)
			src = strings.ReplaceAll(src, "ACC__", acc)
		}
		add0(fc, kind, label, src, loop)
	}
	ri := mk("(*Loader).resolveInheritance", false)
	add(ri, "requires", "args", "l != nil && raw != nil", 0)
	add(ri, "requires", "raw-lists", cfgok("raw.Config", "valid")+" && "+listok("raw.Inherits", "valid"), 0)
	add(ri, "invariant", "range", "-1 <= rangeindex && rangeindex < 1<<40 && result != nil", 1)
	add(ri, "invariant", "name", "same(result.Name, raw.Config.Name)", 1)
	for i, f := range lists {
		add(ri, "invariant", "wf["+f+"]", fmt.Sprintf("0 <= len(result.%s) && len(result.%s) <= cap(result.%s) && cap(result.%s) < 1<<40", f, f, f, f), 1)
		add(ri, "invariant", "own["+f+"]", fmt.Sprintf("cap(result.%s) > 0 ==> mine(result.%s.data, cap(result.%s)*16)", f, f, f), 1)
		add(ri, "invariant", "sep["+f+"]", fmt.Sprintf("disjoint(result.%s.data, cap(result.%s)*16, result, %d)", f, f, size), 1)
		for _, g := range lists[i+1:] {
			add(ri, "invariant", "sep["+f+","+g+"]", fmt.Sprintf("disjoint(result.%s.data, cap(result.%s)*16, result.%s.data, cap(result.%s)*16)", f, f, g, g), 1)
		}
	}
	add(ri, "ensures", "error-xor-result", "result1.itab != nil ==> result0 == nil", 0)
	add(ri, "ensures", "ok", "result1.itab == nil ==> result0 != nil", 0)
	add(ri, "ensures", "name", "result1.itab == nil ==> same(result0.Name, old(raw.Config.Name))", 0)
	add(ri, "ensures", "lists-ok", "result1.itab == nil ==> "+cfgok("result0", "valid"), 0)
	ri.Modifies = []string{"nothing"}
	reg(ri)
	if len(errs) > 0 {
		return nil, fmt.Errorf("%s", strings.Join(errs, "; "))
	}
	return out, nil
}

// hasLoop: the function's control-flow graph has a back edge.
func hasLoop(fn *ssa.Function) bool {
	for _, b := range fn.Blocks {
		for _, s := range b.Succs {
			if s.Index <= b.Index && s.Dominates(b) {
				return true
			}
		}
	}
	return false
}

// firstLoopVar: the variable declared by the init statement of the function's
// first for statement (`for c := chain; ...`), "" if there is none.
func firstLoopVar(fn *ssa.Function) string {
	name := ""
	if syn, ok := fn.Syntax().(*ast.FuncDecl); ok && syn.Body != nil {
		ast.Inspect(syn.Body, func(n ast.Node) bool {
			if fs, ok := n.(*ast.ForStmt); ok && name == "" {
				if as, ok := fs.Init.(*ast.AssignStmt); ok && len(as.Lhs) == 1 {
					if id, ok := as.Lhs[0].(*ast.Ident); ok {
						name = id.Name
					}
				}
			}
			return name == ""
		})
	}
	return name
}
