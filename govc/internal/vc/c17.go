package vc

import (
	"fmt"
	"os"
	"os/exec"
	"path/filepath"
	"regexp"
	"strings"
)

// C17: unbounded safety proofs of the two hand-written splitters (contracts in
// /repo) plus a BOUNDED stand-in for the quote/split round trip: the real
// functions are run on every argument list whose quoted form has at most K
// characters over a fixed alphabet (labelled bounded; never counted as proved).

func init() {
	PropConfigs["C17"] = &PropConfig{ID: "C17",
		Modules: []Module{{Dir: ".", Patterns: []string{"./internal/shellparse", "./xtool/safesplit"}}},
		Specs:   []string{"common.smt2"},
		Post:    c17Bounded,
		Undecided: []string{
			"round trip for inputs beyond the stated bound K (bounded stand-in only)",
			"build-tag evaluation (delegates to go/build), $VAR / $(cmd) expansion (regexp, os.Expand, exec) and flag merging: behaviour of library code outside the repository",
			"index safety/termination of safesplit.SplitPkgConfigFlags is covered by the bounded run only (its five nested loops exceed the path-enumerating executor)",
		},
	}
}

func c17Bounded(ck *Checker, rep *Report, opts *Options) {
	if opts.OnlyFn != "" {
		return
	}
	k := "8"
	if opts.Tier == "thorough" {
		k = "10"
	}
	runBounded(rep, opts, "c17", map[string]string{
		"internal/shellparse/zz_verif_rt_test.go": "harness/c17_shellparse_test.go",
		"xtool/safesplit/zz_verif_rt_test.go":     "harness/c17_safesplit_test.go",
	}, []string{"./internal/shellparse/", "./xtool/safesplit/"}, "TestZZVerifRoundTrip", []string{"VERIF_C17_K=" + k}, 2,
		"roundtrip", "quoted form of at most K="+k+" characters over an 11-symbol alphabet (letter, blank, tab, newline, both quotes, backslash, '-', '$', two non-ASCII runes: U+00E0 (Latin-1, UTF-8 form contains the byte 0xA0) and U+0485 (above Latin-1, UTF-8 form contains 0x85 and the code point's low byte is the white-space code 0x85); safesplit: newline and carriage return inside arguments); shellparse: both always-quoted and quoted-only-when-needed forms")
}

// runBounded runs bounded harness tests injected into /repo packages through
// go test -overlay and turns their ZZBOUNDED / ZZFAIL lines into evidence and
// (for failures) violations carrying the failing inputs.
func runBounded(rep *Report, opts *Options, tag string, files map[string]string, pkgs []string, run string, env []string, expect int, checkName, boundDesc string, goflags ...string) {
	scratch := filepath.Join(opts.Scratch, tag)
	os.MkdirAll(scratch, 0o755)
	repl := map[string]string{}
	for a, b := range files {
		repl[filepath.Join(opts.RepoDir, a)] = filepath.Join(opts.VerifDir, b)
	}
	for a, b := range opts.OverlayFiles {
		repl[a] = b
	}
	var sb strings.Builder
	sb.WriteString(`{"Replace":{`)
	first := true
	for a, b := range repl {
		if !first {
			sb.WriteString(",")
		}
		first = false
		fmt.Fprintf(&sb, "%q:%q", a, b)
	}
	sb.WriteString("}}")
	ov := filepath.Join(scratch, "overlay.json")
	os.WriteFile(ov, []byte(sb.String()), 0o644)
	gobin := os.Getenv("GO")
	if gobin == "" {
		gobin = "go"
	}
	args := append([]string{"test"}, goflags...)
	args = append(args, "-overlay", ov, "-vet=off", "-count=1", "-v", "-timeout", "1200s", "-run", run)
	args = append(args, pkgs...)
	cmd := exec.Command(gobin, args...)
	cmd.Dir = opts.RepoDir
	cmd.Env = append(os.Environ(), env...)
	out, _ := cmd.CombinedOutput()
	parseBounded(rep, string(out), tag, expect, checkName, boundDesc)
}

// parseBounded turns the ZZBOUNDED / ZZFAIL lines of a bounded harness into
// evidence entries and bounded failures.
func parseBounded(rep *Report, text, tag string, expect int, checkName, boundDesc string) {
	re := regexp.MustCompile(`ZZBOUNDED (\w+) (?:K|types)=(\d+) (?:lists|pairs)=(\d+)(?: maxquoted=\d+)? failures=(\d+)`)
	ms := re.FindAllStringSubmatch(text, -1)
	if len(ms) != expect {
		rep.Broken = append(rep.Broken, tag+" bounded harness did not run: "+truncate(text, 1500))
		return
	}
	var fails []string
	for _, l := range strings.Split(text, "\n") {
		if strings.HasPrefix(l, "ZZFAIL ") {
			fails = append(fails, l[7:])
		}
	}
	for _, m := range ms {
		entry := map[string]interface{}{"check": checkName + "[" + m[1] + "]", "bound": boundDesc,
			"cases_run": m[3], "failures": m[4], "kind": boundedKind(tag)}
		rep.Bounded = append(rep.Bounded, entry)
		if m[4] != "0" {
			// failing inputs tagged "[<group>] ..." belong to that group's obligation
			mine := []string{}
			tagged := false
			for _, f := range fails {
				if strings.HasPrefix(f, "[") {
					tagged = true
				}
				if strings.HasPrefix(f, "["+m[1]+"] ") {
					mine = append(mine, f)
				}
			}
			if !tagged {
				mine = fails
			}
			rep.BoundedFail = append(rep.BoundedFail, BoundedFailure{Name: "bounded." + checkName + "[" + m[1] + "]", Inputs: mine})
		}
	}
}


func boundedKind(tag string) string {
	if tag == "c10sched" || tag == "c11sched" {
		return "bounded enumeration of thread schedules of the real functions under a cooperative scheduler (depth-first up to a cap, then random schedules; not a proof)"
	}
	if tag == "c06map" || tag == "c06keys" {
		return "bounded pseudo-random differential execution of the real functions against Go's own map (not a proof, not exhaustive)"
	}
	return "bounded exhaustive execution of the real function (not a proof)"
}
