package vc

import (
	"fmt"
	"hash/crc32"
	"go/constant"
	"go/types"
	"math/big"
	"strings"

	"golang.org/x/tools/go/ssa"
)

// ---------------------------------------------------------------------------
// Evaluation of contract expressions in a symbolic state.

type Env struct {
	r        *FnRun
	st       *State // current state
	old      *State // state old(...) refers to
	vars     map[string]Val
	vtypes   map[string]types.Type
	at       *ssa.BasicBlock // loop head for local-name resolution
	assuming bool            // valid(...) registers regions when true
	guard    *Term           // condition under which the current sub-expression is asserted
	nm       *State          // state that receives naming definitions (the goal's own path)
	pkg      *types.Package
	qn       int
}

func (r *FnRun) env(st, old *State) *Env {
	e := &Env{r: r, st: st, old: old, vars: map[string]Val{}, vtypes: map[string]types.Type{}, nm: st}
	for k, v := range r.params {
		e.vars[k] = v
		e.vtypes[k] = r.ptypes[k]
	}
	// positional names param0, param1, ... (receiver first) and the authoring-time
	// names of the contract's `params` clause: contracts do not depend on how the
	// parameters are called in the working tree
	if r.Fn != nil {
		for i, p := range r.Fn.Params {
			if v, ok := r.params[p.Name()]; ok {
				e.vars[fmt.Sprintf("param%d", i)] = v
				e.vtypes[fmt.Sprintf("param%d", i)] = p.Type()
				if r.C != nil && i < len(r.C.Params) && r.C.Params[i] != "_" {
					if _, taken := e.vars[r.C.Params[i]]; !taken {
						e.vars[r.C.Params[i]] = v
						e.vtypes[r.C.Params[i]] = p.Type()
					}
				}
			}
		}
	}
	for k, v := range r.lets {
		e.vars[k] = v
	}
	if r.Fn != nil && r.Fn.Pkg != nil {
		e.pkg = r.Fn.Pkg.Pkg
	}
	return e
}

func (r *FnRun) envAt(st *State, at *ssa.BasicBlock) *Env {
	e := r.env(st, r.Entry)
	e.at = at
	return e
}

func (e *Env) guardTerm() Term {
	if e.guard != nil {
		return *e.guard
	}
	return True
}

func (e *Env) sub(st *State) *Env {
	n := *e
	n.st = st
	return &n
}

type evalErr struct{ msg string }

func (e *Env) fail(f string, a ...interface{}) {
	panic(unsupported("contract: " + fmt.Sprintf(f, a...)))
}

func (e *Env) evalBool(x Expr) Term {
	v := e.eval(x)
	t, ok := v.(Term)
	if !ok || t.Sort.K != KBool {
		e.fail("expression %s is not boolean (%s)", x, describeVal(v))
	}
	return t
}

func (e *Env) evalTerm(x Expr) Term {
	v := e.eval(x)
	switch t := v.(type) {
	case Term:
		return t
	case *UntypedInt:
		return BVConst(t.V.(*big.Int), 64, true)
	}
	e.fail("expression %s is not a scalar (%s)", x, describeVal(v))
	return Term{}
}

func (e *Env) eval(x Expr) Val {
	v, _ := e.evalT(x)
	return v
}

var basicByName = map[string]types.BasicKind{
	"int": types.Int, "int8": types.Int8, "int16": types.Int16, "int32": types.Int32, "int64": types.Int64,
	"uint": types.Uint, "uint8": types.Uint8, "uint16": types.Uint16, "uint32": types.Uint32, "uint64": types.Uint64,
	"uintptr": types.Uintptr, "byte": types.Uint8, "rune": types.Int32, "bool": types.Bool,
	"float32": types.Float32, "float64": types.Float64,
}

func (e *Env) sortByName(n string) (Sort, types.Type, bool) {
	if k, ok := basicByName[n]; ok {
		t := types.Typ[k]
		s, _ := e.r.E.scalarSort(t)
		return s, t, true
	}
	if n == "ptr" {
		return BV(64, false), types.Typ[types.UnsafePointer], true
	}
	return Sort{}, nil, false
}

// coerce unifies an untyped literal with a typed operand.
func coerce(a, b Val) (Val, Val) {
	ua, aok := a.(*UntypedInt)
	ub, bok := b.(*UntypedInt)
	switch {
	case aok && bok:
		return a, b
	case aok:
		if tb, ok := b.(Term); ok && isNum(tb.Sort) {
			return BVConst(ua.V.(*big.Int), tb.Sort.W, tb.Sort.Signed), b
		}
		if tb, ok := b.(Term); ok && tb.Sort.K == KFP {
			f, _ := new(big.Float).SetInt(ua.V.(*big.Int)).Float64()
			return fpConst(f, tb.Sort.W), b
		}
	case bok:
		if ta, ok := a.(Term); ok && isNum(ta.Sort) {
			return a, BVConst(ub.V.(*big.Int), ta.Sort.W, ta.Sort.Signed)
		}
		if ta, ok := a.(Term); ok && ta.Sort.K == KFP {
			f, _ := new(big.Float).SetInt(ub.V.(*big.Int)).Float64()
			return a, fpConst(f, ta.Sort.W)
		}
	}
	return a, b
}

func (e *Env) evalT(x Expr) (Val, types.Type) {
	switch n := x.(type) {
	case *ENum:
		return &UntypedInt{n.V}, nil
	case *EStr:
		return n, nil
	case *EIdent:
		return e.ident(n.Name)
	case *EUnary:
		v, t := e.evalT(n.X)
		switch n.Op {
		case "!":
			return Not(v.(Term)), t
		case "-":
			if u, ok := v.(*UntypedInt); ok {
				return &UntypedInt{new(big.Int).Neg(u.V.(*big.Int))}, nil
			}
			tt := v.(Term)
			return Sub(zeroLike(tt), tt), t
		case "^":
			tt := v.(Term)
			return Term{"(bvnot " + tt.S + ")", tt.Sort}, t
		}
	case *EBinary:
		return e.binary(n)
	case *ECond:
		c := e.evalBool(n.C)
		a, ta := e.evalT(n.A)
		b, _ := e.evalT(n.B)
		a, b = coerce(a, b)
		return e.iteVal(c, a, b), ta
	case *EQuant:
		return e.quant(n), nil
	case *ESel:
		return e.sel(n)
	case *EIndex:
		return e.index(n)
	case *ECall:
		return e.call(n)
	}
	e.fail("cannot evaluate %s", x)
	return nil, nil
}

func (e *Env) iteVal(c Term, a, b Val) Val {
	switch x := a.(type) {
	case Term:
		return Ite(c, x, b.(Term))
	case *UntypedInt:
		return Ite(c, BVConst(x.V.(*big.Int), 64, true), BVConst(b.(*UntypedInt).V.(*big.Int), 64, true))
	case *StructVal:
		y := b.(*StructVal)
		out := &StructVal{T: x.T, N: x.N}
		for i := range x.F {
			out.F = append(out.F, e.iteVal(c, x.F[i], y.F[i]))
		}
		return out
	}
	e.fail("conditional over %T", a)
	return nil
}

func (e *Env) ident(name string) (Val, types.Type) {
	switch name {
	case "true":
		return True, types.Typ[types.Bool]
	case "false":
		return False, types.Typ[types.Bool]
	case "nil":
		return BVInt(0, PtrW, false), types.Typ[types.UnsafePointer]
	}
	if e.at != nil {
		// a parameter that the loop itself advances (`for ; c != nil; c = c.outer`): at
		// the loop head its name means the CURRENT value (the phi), old(c) the entry value
		for _, ins := range e.at.Instrs {
			phi, ok := ins.(*ssa.Phi)
			if !ok {
				break
			}
			if phi.Comment == name {
				if _, isParam := e.vars[name]; isParam {
					if v, ok := e.st.regs[phi]; ok {
						return v, phi.Type()
					}
				}
			}
		}
	}
	if v, ok := e.vars[name]; ok {
		return v, e.vtypes[name]
	}
	if e.at != nil {
		if v, t, ok := e.r.lookupLocal(e.st, e.at, name); ok {
			return v, t
		}
	}
	if g, ok := e.st.ghost["ghost:"+name]; ok {
		return g, nil
	}
	if e.pkg != nil {
		if obj := e.pkg.Scope().Lookup(name); obj != nil {
			if c, ok := obj.(*types.Const); ok {
				if c.Val().Kind() == constant.Int {
					v, _ := new(big.Int).SetString(c.Val().ExactString(), 10)
					if b, ok := c.Type().Underlying().(*types.Basic); ok && b.Info()&types.IsUntyped == 0 {
						s, _ := e.r.E.scalarSort(c.Type())
						return BVConst(v, s.W, s.Signed), c.Type()
					}
					return &UntypedInt{v}, nil
				}
				if c.Val().Kind() == constant.String {
					return &EStr{constant.StringVal(c.Val())}, nil
				}
			}
			if g, ok := obj.(*types.Var); ok && e.r.Fn != nil {
				// package-level variable: its address is symbolic; value lives in memory
				if sg, ok := e.r.Fn.Pkg.Members[name].(*ssa.Global); ok {
					addr := e.r.globalAddr(e.st, sg).(Term)
					return e.r.loadAt(e.st, addr, g.Type()), g.Type()
				}
			}
		}
	}
	if c, ok := e.r.E.Specs.Consts[name]; ok {
		return c, nil
	}
	e.fail("unknown identifier %q", name)
	return nil, nil
}

func (e *Env) binary(n *EBinary) (Val, types.Type) {
	v, t := e.binary0(n)
	if tt, ok := v.(Term); ok && e.nm != nil && len(tt.S) > 60 && isNum(tt.Sort) && !strings.Contains(tt.S, "q!") {
		return e.nm.name("cx", tt), t
	}
	return v, t
}

func (e *Env) binary0(n *EBinary) (Val, types.Type) {
	switch n.Op {
	case "&&":
		return And(e.evalBool(n.X), e.evalBool(n.Y)), nil
	case "||":
		return Or(e.evalBool(n.X), e.evalBool(n.Y)), nil
	case "==>":
		a := e.evalBool(n.X)
		sub := *e
		g := a
		if e.guard != nil {
			g = And(*e.guard, a)
		}
		sub.guard = &g
		return Implies(a, sub.evalBool(n.Y)), nil
	case "<==>":
		return Ident(e.evalBool(n.X), e.evalBool(n.Y)), nil
	}
	a, ta := e.evalT(n.X)
	b, tb := e.evalT(n.Y)
	if ta == nil {
		ta = tb
	}
	a, b = coerce(a, b)
	// constant folding on two literals
	if ua, ok := a.(*UntypedInt); ok {
		ub := b.(*UntypedInt)
		x, y := ua.V.(*big.Int), ub.V.(*big.Int)
		z := new(big.Int)
		switch n.Op {
		case "+":
			return &UntypedInt{z.Add(x, y)}, nil
		case "-":
			return &UntypedInt{z.Sub(x, y)}, nil
		case "*":
			return &UntypedInt{z.Mul(x, y)}, nil
		case "/":
			return &UntypedInt{z.Quo(x, y)}, nil
		case "<<":
			return &UntypedInt{z.Lsh(x, uint(y.Int64()))}, nil
		case ">>":
			return &UntypedInt{z.Rsh(x, uint(y.Int64()))}, nil
		case "|":
			return &UntypedInt{z.Or(x, y)}, nil
		case "&":
			return &UntypedInt{z.And(x, y)}, nil
		case "==":
			return boolTerm(x.Cmp(y) == 0), nil
		case "!=":
			return boolTerm(x.Cmp(y) != 0), nil
		case "<":
			return boolTerm(x.Cmp(y) < 0), nil
		case "<=":
			return boolTerm(x.Cmp(y) <= 0), nil
		case ">":
			return boolTerm(x.Cmp(y) > 0), nil
		case ">=":
			return boolTerm(x.Cmp(y) >= 0), nil
		}
		e.fail("constant operator %s", n.Op)
	}
	// string value against the empty literal
	if es, ok := b.(*EStr); ok {
		if sa, ok := a.(*StructVal); ok && es.V == "" && len(sa.N) == 2 && sa.N[1] == "len" {
			z := Eq(sa.F[1].(Term), zeroLike(sa.F[1].(Term)))
			switch n.Op {
			case "==":
				return z, nil
			case "!=":
				return Not(z), nil
			}
		}
	}
	// string value against a non-empty literal: same length and same contents, contents through
	// the uninterpreted rank of the (immutable) bytes, which every literal of the program is
	// assumed to have as strlit_id(<its checksum>) (exec.go stringLit)
	if es, ok := b.(*EStr); ok && es.V != "" {
		if sa, ok := a.(*StructVal); ok && len(sa.N) == 2 && sa.N[1] == "len" && e.st != nil {
			l := sa.F[1].(Term)
			lit := Term{fmt.Sprintf("(strlit_id %d)", crc32.ChecksumIEEE([]byte(es.V))), Sort{K: KInt, W: 64, Signed: true}}
			var ln Term
			if l.Sort.K == KInt {
				ln = Term{fmt.Sprint(len(es.V)), l.Sort}
			} else {
				ln = BVInt(int64(len(es.V)), l.Sort.W, l.Sort.Signed)
			}
			z := And(Eq(l, ln), Ident(strRank(e.st.memArr("M8"), sa), lit))
			switch n.Op {
			case "==":
				return z, nil
			case "!=":
				return Not(z), nil
			}
		}
	}
	// strings / structs: == and != component-wise (identity of representation)
	if sa, ok := a.(*StructVal); ok {
		sb, ok := b.(*StructVal)
		if !ok || len(sa.F) != len(sb.F) {
			e.fail("comparison of incompatible composite values in %s", n)
		}
		var eqs []Term
		for i := range sa.F {
			x, y := coerce(sa.F[i], sb.F[i])
			eqs = append(eqs, Eq(x.(Term), y.(Term)))
		}
		switch n.Op {
		case "==":
			return And(eqs...), nil
		case "!=":
			return Not(And(eqs...)), nil
		}
		e.fail("operator %s on composite values", n.Op)
	}
	if sa, ok := a.(*EStr); ok {
		sb, ok := b.(*EStr)
		if !ok {
			e.fail("string literal compared with non-literal in %s", n)
		}
		switch n.Op {
		case "==":
			return boolTerm(sa.V == sb.V), nil
		case "!=":
			return boolTerm(sa.V != sb.V), nil
		}
	}
	x, ok1 := a.(Term)
	y, ok2 := b.(Term)
	if !ok1 || !ok2 {
		e.fail("operands of %s: %s, %s", n, describeVal(a), describeVal(b))
	}
	if isNum(x.Sort) && isNum(y.Sort) && (x.Sort.W != y.Sort.W || x.Sort.K != y.Sort.K) && !isShift(n.Op) {
		e.fail("width mismatch in %s: %d vs %d bits (convert explicitly)", n, x.Sort.W, y.Sort.W)
	}
	if isNum(x.Sort) && isNum(y.Sort) && x.Sort.Signed != y.Sort.Signed && !isShift(n.Op) {
		switch n.Op {
		case "<", "<=", ">", ">=", "/", "%":
			e.fail("signedness mismatch in %s (convert explicitly)", n)
		}
	}
	switch n.Op {
	case "==":
		if x.Sort.K == KBool {
			return Ident(x, y), nil
		}
		return Eq(x, y), nil
	case "!=":
		if x.Sort.K == KBool {
			return Not(Ident(x, y)), nil
		}
		return Not(Eq(x, y)), nil
	case "<":
		return Lt(x, y), nil
	case "<=":
		return Le(x, y), nil
	case ">":
		return Lt(y, x), nil
	case ">=":
		return Le(y, x), nil
	case "+":
		return Add(x, y), ta
	case "-":
		return Sub(x, y), ta
	case "*":
		return Mul(x, y), ta
	case "/":
		return Div(x, y), ta
	case "%":
		return Rem(x, y), ta
	case "&":
		return bvBin("bvand", x, y), ta
	case "|":
		return bvBin("bvor", x, y), ta
	case "^":
		return bvBin("bvxor", x, y), ta
	case "&^":
		return bvBin("bvand", x, Term{"(bvnot " + y.S + ")", y.Sort}), ta
	case "<<":
		return Shl(x, y), ta
	case ">>":
		return Shr(x, y), ta
	}
	e.fail("operator %s", n.Op)
	return nil, nil
}

func isNum(s Sort) bool { return s.K == KBV || s.K == KInt }

func isShift(op string) bool { return op == "<<" || op == ">>" }

func boolTerm(b bool) Term {
	if b {
		return True
	}
	return False
}

func (e *Env) quant(n *EQuant) Val {
	sub := *e
	sub.vars = map[string]Val{}
	sub.vtypes = map[string]types.Type{}
	for k, v := range e.vars {
		sub.vars[k] = v
	}
	for k, v := range e.vtypes {
		sub.vtypes[k] = v
	}
	var vars []Term
	for _, qv := range n.Vars {
		s, t, ok := e.sortByName(qv.Type)
		if !ok {
			e.fail("unknown binder type %q", qv.Type)
		}
		v := Term{"q!" + e.r.freshName(qv.Name), s}
		vars = append(vars, v)
		sub.vars[qv.Name] = v
		sub.vtypes[qv.Name] = t
	}
	sub.assuming = false
	body := sub.evalBool(n.Body)
	var ranges []Term
	for _, v := range vars {
		if v.Sort.K == KInt {
			ranges = append(ranges, InTypeRange(v))
		}
	}
	if n.Forall {
		return forallPat(vars, Implies(And(ranges...), body))
	}
	ex := forallPat(vars, And(append(ranges, body)...))
	if strings.HasPrefix(ex.S, "(forall ") {
		return Term{"(exists " + ex.S[len("(forall "):], BoolSort()}
	}
	return Exists(vars, And(append(ranges, body)...))
}

func (e *Env) sel(n *ESel) (Val, types.Type) {
	v, t := e.evalT(n.X)
	switch x := v.(type) {
	case *StructVal:
		if f, ok := x.Field(n.Name); ok {
			var ft types.Type
			if t != nil {
				if stt, ok := t.Underlying().(*types.Struct); ok {
					for i := 0; i < stt.NumFields(); i++ {
						if stt.Field(i).Name() == n.Name {
							ft = stt.Field(i).Type()
						}
					}
				}
			}
			return f, ft
		}
		e.fail("no field %s in %s", n.Name, describeVal(v))
	case *TupleVal:
		var i int
		fmt.Sscanf(n.Name, "%d", &i)
		return x.E[i], nil
	case Term:
		// pointer to struct: load the field from the current heap
		if t != nil {
			if pt, ok := t.Underlying().(*types.Pointer); ok {
				if stt, ok := pt.Elem().Underlying().(*types.Struct); ok {
					for i := 0; i < stt.NumFields(); i++ {
						if stt.Field(i).Name() == n.Name {
							addr := Add(x, BVInt(e.r.fieldOffset(stt, i), 64, false))
							if _, ok := e.r.fieldComps("", stt, i); ok {
								fp := &FieldPtr{Base: x, S: stt, Key: structKey(pt.Elem()), Idx: i, Addr: addr}
								return e.r.loadField(e.st, fp), stt.Field(i).Type()
							}
							if _, isS := stt.Field(i).Type().Underlying().(*types.Struct); isS {
								// nested struct: a typed pointer to it
								return addr, types.NewPointer(stt.Field(i).Type())
							}
							return e.r.loadAt(e.st, addr, stt.Field(i).Type()), stt.Field(i).Type()
						}
					}
					e.fail("no field %s in %s", n.Name, pt.Elem())
				}
			}
		}
	case *LocalPtr:
		cell := e.r.cellGet(e.st, x)
		if sv, ok := cell.(*StructVal); ok {
			if f, ok := sv.Field(n.Name); ok {
				return f, nil
			}
		}
	}
	e.fail("selector %s on %s", n, describeVal(v))
	return nil, nil
}

func (e *Env) index(n *EIndex) (Val, types.Type) {
	if id, ok := n.X.(*EIdent); ok {
		if m, ok := memAlias[id.Name]; ok {
			a := e.evalTerm(n.I)
			if a.Sort.W != 64 {
				e.fail("address in %s must be 64 bits", n)
			}
			raw := Select(e.st.memArr(m), Term{a.S, BV(64, false)})
			return raw, nil
		}
	}
	v, t := e.evalT(n.X)
	if t != nil {
		if _, isMap := t.Underlying().(*types.Map); isMap {
			ma := e.r.mapArrsOf(t)
			val, _ := e.r.mapLookupTerms(e.st, ma, v.(Term), e.evalTerm(n.I))
			return val, ma.vt
		}
	}
	i := e.evalTerm(n.I)
	i64 := Term{Resize(i, 64, i.Sort.Signed).S, BV(64, false)}
	switch x := v.(type) {
	case *StructVal:
		if len(x.N) >= 2 && x.N[0] == "data" {
			var et types.Type = types.Typ[types.Uint8]
			if t != nil {
				if sl, ok := t.Underlying().(*types.Slice); ok {
					et = sl.Elem()
				}
			} else if x.T != nil {
				if sl, ok := x.T.Underlying().(*types.Slice); ok {
					et = sl.Elem()
				}
			}
			es := e.r.E.Sizes.Sizeof(et)
			addr := Add(x.F[0].(Term), Mul(i64, BVInt(es, 64, false)))
			return e.r.loadAt(e.st, addr, et), et
		}
	case *ArrayVal:
		if c, ok := constVal(i64); ok {
			return x.E[c.Int64()], x.T.Elem()
		}
		res := x.E[len(x.E)-1]
		for k := len(x.E) - 2; k >= 0; k-- {
			res = Ite(Eq(i64, BVInt(int64(k), 64, false)), x.E[k].(Term), res.(Term))
		}
		return res, x.T.Elem()
	}
	e.fail("index %s", n)
	return nil, nil
}

var memAlias = map[string]string{"mem": "M8", "mem8": "M8", "mem16": "M16", "mem32": "M32", "mem64": "M64"}

func (e *Env) call(n *ECall) (Val, types.Type) {
	id, ok := n.Fn.(*EIdent)
	if !ok {
		e.fail("call of non-identifier %s", n.Fn)
	}
	name := id.Name
	arg := func(i int) Val { return e.eval(n.Args[i]) }
	argT := func(i int) Term { return e.evalTerm(n.Args[i]) }
	switch name {
	case "addrof":
		// addrof(v): address of the package-level variable v
		if gid, ok := n.Args[0].(*EIdent); ok && e.r.Fn != nil {
			if sg, ok := e.r.Fn.Pkg.Members[gid.Name].(*ssa.Global); ok {
				return e.r.globalAddr(e.st, sg), nil
			}
		}
		e.fail("addrof needs a package-level variable")
	case "old":
		sub := e.sub(e.old)
		sub.at = nil
		// parameters keep entry values; locals are not visible in old()
		return sub.evalT(n.Args[0])
	case "len", "cap":
		v := arg(0)
		switch x := v.(type) {
		case *StructVal:
			if f, ok := x.Field(name); ok {
				return f, types.Typ[types.Int]
			}
			if name == "cap" {
				if f, ok := x.Field("len"); ok {
					return f, types.Typ[types.Int]
				}
			}
		case *ArrayVal:
			return BVInt(int64(len(x.E)), 64, true), types.Typ[types.Int]
		}
		e.fail("%s of %s", name, describeVal(v))
	case "valid":
		p, nn := argT(0), argT(1)
		if e.assuming {
			e.st.regions = append(e.st.regions, Region{Base: p, Size: Term{nn.S, BV(64, false)}, Cond: e.guardTerm()})
		}
		return And(Le(zeroLike(nn), nn), validTerm(p, nn)), nil
	case "fresh":
		// fresh(p, n): [p,p+n) was allocated during the call (not visible to the
		// caller before, disjoint from every region known at entry).
		p, nn := argT(0), argT(1)
		if e.assuming {
			var ds []Term
			for _, rg := range e.st.regions {
				ds = append(ds, Implies(rg.Cond, disjointTerm(p, nn, rg.Base, rg.Size)))
			}
			e.st.regions = append(e.st.regions, Region{Base: p, Size: Term{nn.S, BV(64, false)}, Fresh: true, Cond: e.guardTerm()})
			return And(append(ds, Le(zeroLike(nn), nn), validTerm(p, nn))...), nil
		}
		var ds []Term
		for _, rg := range e.st.regions {
			if rg.Fresh {
				ds = append(ds, And(rg.Cond, Le(rg.Base, p), Le(Add(p, Term{nn.S, BV(64, false)}), Add(rg.Base, rg.Size))))
			}
		}
		return And(Le(zeroLike(nn), nn), Or(ds...)), nil
	case "mine", "notmine":
		// mine(p, n): [p,p+n) was allocated by the current invocation (owned);
		// notmine(p, n): valid memory that this invocation did not allocate.
		// Allocator axiom: memory allocated by an invocation is disjoint from
		// memory that exists independently of it.
		p, nn := argT(0), argT(1)
		nu := Term{nn.S, BV(64, false)}
		if e.assuming {
			var ds []Term
			for _, rg := range e.st.regions {
				if rg.Fresh != (name == "mine") {
					ds = append(ds, Implies(rg.Cond, disjointTerm(p, nn, rg.Base, rg.Size)))
				}
			}
			e.st.regions = append(e.st.regions, Region{Base: p, Size: nu, Fresh: name == "mine", Cond: e.guardTerm()})
			return And(append(ds, Le(zeroLike(nn), nn), validTerm(p, nn))...), nil
		}
		var ds []Term
		for _, rg := range e.st.regions {
			if rg.Fresh == (name == "mine") {
				ds = append(ds, And(rg.Cond, Le(rg.Base, p), Le(Add(p, nu), Add(rg.Base, rg.Size))))
			}
		}
		return And(Le(zeroLike(nn), nn), validTerm(p, nn), Or(ds...)), nil
	case "disjoint":
		return disjointTerm(argT(0), argT(1), argT(2), argT(3)), nil
	case "min":
		a, b := coerce(arg(0), arg(1))
		return Ite(Lt(a.(Term), b.(Term)), a.(Term), b.(Term)), nil
	case "max":
		a, b := coerce(arg(0), arg(1))
		return Ite(Lt(a.(Term), b.(Term)), b.(Term), a.(Term)), nil
	case "ite":
		c := e.evalBool(n.Args[0])
		a, b := coerce(arg(1), arg(2))
		return e.iteVal(c, a, b), nil
	case "same":
		// representation identity of two composite values
		a, b := arg(0), arg(1)
		return identVals(a, b), nil
	case "heldlock":
		a := argT(0)
		if e.st.locks[a.S] > 0 {
			return True, nil
		}
		return False, nil
	case "as":
		// as(T, addr): addr viewed as *T (T a struct type of the package)
		var obj types.Object
		switch tn := n.Args[0].(type) {
		case *EIdent:
			if e.pkg != nil {
				obj = e.pkg.Scope().Lookup(tn.Name)
			}
		case *ESel:
			if q, ok := tn.X.(*EIdent); ok && e.pkg != nil {
				for _, imp := range e.pkg.Imports() {
					if imp.Name() == q.Name {
						obj = imp.Scope().Lookup(tn.Name)
					}
				}
			}
		}
		if obj == nil {
			e.fail("as: unknown type %s", n.Args[0])
		}
		a := argT(1)
		return Term{a.S, BV(64, false)}, types.NewPointer(obj.Type())
	case "has":
		// has(m, k): key k is present in map m
		mv, mt := e.evalT(n.Args[0])
		if mt == nil {
			e.fail("has(): first argument must be a map-typed expression")
		}
		ma := e.r.mapArrsOf(mt)
		_, h := e.r.mapLookupTerms(e.st, ma, mv.(Term), argT(1))
		return h, nil
	case "mention":
		// mention(t): a trivially true atom (mention_S t) - mention_S is declared
		// with the axiom "forall x. mention_S x" - that keeps the ground term t
		// available to the solver's quantifier instantiation (E-matching).
		t := argT(0)
		nm := "mention_" + mangle(t.Sort.SMT())
		root := e.r
		for root.parent != nil {
			root = root.parent
		}
		if root.ghostDecls == nil {
			root.ghostDecls = map[string]string{}
		}
		root.ghostDecls[nm] = fmt.Sprintf("(declare-fun %s (%s) Bool)\n(assert (forall ((x!m %s)) (! (%s x!m) :pattern ((%s x!m)))))\n", nm, t.Sort.SMT(), t.Sort.SMT(), nm, nm)
		return Term{"(" + nm + " " + t.S + ")", BoolSort()}, nil
	case "strrank":
		sv, ok := arg(0).(*StructVal)
		if !ok || len(sv.F) != 2 {
			e.fail("strrank needs a string value")
		}
		return strRank(e.st.memArr("M8"), sv), nil
	case "f64frombits", "f32frombits":
		t := argT(0)
		w := 64
		if name == "f32frombits" {
			w = 32
		}
		if t.Sort.K != KBV || t.Sort.W != w {
			e.fail("%s needs a %d-bit value", name, w)
		}
		return fpFromBits(t), nil
	case "isnan":
		t := argT(0)
		return Term{"(fp.isNaN " + t.S + ")", BoolSort()}, nil
	case "isinf":
		t := argT(0)
		return Term{"(fp.isInfinite " + t.S + ")", BoolSort()}, nil
	case "signbit":
		// sign of a float; a NaN has none (SMT-LIB has a single NaN, as Go's spec does not distinguish NaNs)
		t := argT(0)
		return Term{"(fp.isNegative " + t.S + ")", BoolSort()}, nil
	case "fabs":
		t := argT(0)
		return Term{"(fp.abs " + t.S + ")", t.Sort}, nil
	case "fneg":
		t := argT(0)
		return Term{"(fp.neg " + t.S + ")", t.Sort}, nil
	case "fsame":
		// same floating-point datum: both NaN, or identical including the sign of zero
		a, b := argT(0), argT(1)
		return Term{"(= " + a.S + " " + b.S + ")", BoolSort()}, nil
	case "real", "imag":
		if sv, ok := arg(0).(*StructVal); ok && len(sv.F) == 2 {
			if name == "real" {
				return sv.F[0], nil
			}
			return sv.F[1], nil
		}
		e.fail("%s needs a complex value", name)
	case "memhash64":
		a, b := argT(0), argT(1)
		return Term{app("mh64", a, b), BV(64, false)}, nil
	case "memhash32":
		a, b := argT(0), argT(1)
		return Term{app("mh32", a, b), BV(64, false)}, nil
	case "memhashbytes":
		a, b, c := argT(0), argT(1), argT(2)
		return Term{app("mhbytes", e.st.memArr("M8"), a, b, c), BV(64, false)}, nil
	case "mulovf":
		a, b := coerce(arg(0), arg(1))
		return MulOverflows(a.(Term), b.(Term)), nil
	case "panicmsg":
		return e.vars["panicmsg"], nil
	}
	if s, t, ok := e.sortByName(name); ok && len(n.Args) == 1 {
		v := arg(0)
		switch x := v.(type) {
		case *UntypedInt:
			if isNum(s) {
				return BVConst(x.V.(*big.Int), s.W, s.Signed), t
			}
		case Term:
			if isNum(x.Sort) && isNum(s) {
				return Resize(x, s.W, s.Signed), t
			}
			if x.Sort.K == KBool && s.K == KBool {
				return x, t
			}
		}
		e.fail("conversion %s", n)
	}
	if sf, ok := e.r.E.Specs.Funcs[name]; ok {
		if len(sf.Params) != len(n.Args) {
			e.fail("spec function %s expects %d arguments", name, len(sf.Params))
		}
		var args []Term
		for i := range n.Args {
			v := arg(i)
			var t Term
			switch x := v.(type) {
			case *UntypedInt:
				if !isNum(sf.Params[i]) {
					e.fail("literal passed for non-BV parameter of %s", name)
				}
				t = BVConst(x.V.(*big.Int), sf.Params[i].W, sf.Params[i].Signed)
			case Term:
				t = x
				if sf.Params[i].K == KInt && t.Sort.K != KInt {
					e.fail("argument %d of %s must be a rank/int value", i, name)
				}
				if sf.Params[i].K == KBV && (t.Sort.K != KBV || t.Sort.W != sf.Params[i].W) {
					e.fail("argument %d of %s: expected %d-bit value, got %s", i, name, sf.Params[i].W, t.Sort.SMT())
				}
				if sf.Params[i].K == KArray && t.Sort.K != KArray {
					e.fail("argument %d of %s must be a memory array", i, name)
				}
			default:
				e.fail("argument %d of %s is not scalar", i, name)
			}
			args = append(args, t)
		}
		e.r.E.Specs.Used[name] = true
		return Term{app(sf.SMTName, args...), sf.Result}, nil
	}
	if gf, ok := e.r.E.GhostFns[name]; ok {
		if len(gf.Params) != len(n.Args) {
			e.fail("ghost function %s expects %d arguments", name, len(gf.Params))
		}
		wordSort := func(ab string) Sort {
			if ab == "word" {
				return BV(64, false)
			}
			if ab == "int" {
				return BV(64, true)
			}
			if ab == "rank" {
				return Sort{K: KInt, W: 64, Signed: true}
			}
			s, err := parseSortAbbrev(ab)
			if err != nil {
				e.fail("ghost function %s: %v", name, err)
			}
			return s
		}
		var args []Term
		var ps []string
		for i := range n.Args {
			t := e.evalTerm(n.Args[i])
			ws := wordSort(gf.Params[i])
			if ws.SMT() != t.Sort.SMT() {
				e.fail("ghost function %s: argument %d has sort %s, expected %s", name, i, t.Sort.SMT(), ws.SMT())
			}
			args = append(args, t)
			ps = append(ps, ws.SMT())
		}
		rs := wordSort(gf.Result)
		root := e.r
		for root.parent != nil {
			root = root.parent
		}
		if root.ghostDecls == nil {
			root.ghostDecls = map[string]string{}
		}
		root.ghostDecls[name] = fmt.Sprintf("(declare-fun gf_%s (%s) %s)\n", name, strings.Join(ps, " "), rs.SMT())
		return Term{app("gf_"+name, args...), rs}, nil
	}
	switch name {
	case "cs_old", "cs_new":
		snap := e.st.csAcq
		if name == "cs_new" {
			snap = e.st.csRel
		}
		if snap == nil {
			// no critical section on this path: the value is unspecified
			v, t := e.evalT(n.Args[0])
			return e.unspecified(v), t
		}
		sub := e.sub(snap)
		sub.at = nil
		return sub.evalT(n.Args[0])
	case "ghost":
		id, ok := n.Args[0].(*EIdent)
		if !ok {
			e.fail("ghost(name)")
		}
		if v, ok := e.st.ghost["ghost:"+id.Name]; ok {
			return v, nil
		}
		return BVInt(0, 32, false), nil
	}
	if m, ok := memAlias[name]; ok && len(n.Args) == 0 {
		return e.st.memArr(m), nil
	}
	e.fail("unknown function %s in %s", name, n)
	return nil, nil
}

func identVals(a, b Val) Term {
	switch x := a.(type) {
	case Term:
		return Ident(x, b.(Term))
	case *StructVal:
		y := b.(*StructVal)
		var ts []Term
		for i := range x.F {
			ts = append(ts, identVals(x.F[i], y.F[i]))
		}
		return And(ts...)
	case *ArrayVal:
		y := b.(*ArrayVal)
		var ts []Term
		for i := range x.E {
			ts = append(ts, identVals(x.E[i], y.E[i]))
		}
		return And(ts...)
	}
	panic(unsupported("same() on " + describeVal(a)))
}

// ---------------------------------------------------------------------------
// Spec library: SMT-LIB prelude files with signature comments
//   ;; sig name(u8,u8,i64) i32      -- declares name for contracts
//   ;; const NAME i32 = 65533

type SpecFunc struct {
	SMTName string
	Params  []Sort
	Result  Sort
}

type SpecLib struct {
	Prelude []string // SMT-LIB text blocks
	Funcs   map[string]*SpecFunc
	Consts  map[string]Term
	Used    map[string]bool
	Files   []string
}

func NewSpecLib() *SpecLib {
	return &SpecLib{Funcs: map[string]*SpecFunc{}, Consts: map[string]Term{}, Used: map[string]bool{}}
}

func parseSortAbbrev(s string) (Sort, error) {
	s = strings.TrimSpace(s)
	switch {
	case s == "bool":
		return BoolSort(), nil
	case s == "rank":
		return Sort{K: KInt, W: 64, Signed: true}, nil
	case s == "f32":
		return FPSort(32), nil
	case s == "f64":
		return FPSort(64), nil
	case strings.HasPrefix(s, "mem"):
		return memSort("M" + s[3:]), nil
	case strings.HasPrefix(s, "u"), strings.HasPrefix(s, "i"):
		var w int
		if _, err := fmt.Sscanf(s[1:], "%d", &w); err == nil && w > 0 {
			return BV(w, s[0] == 'i'), nil
		}
	}
	return Sort{}, fmt.Errorf("bad sort %q", s)
}

func (sl *SpecLib) Load(path string, text string) error {
	sl.Files = append(sl.Files, path)
	sl.Prelude = append(sl.Prelude, text)
	for _, line := range strings.Split(text, "\n") {
		line = strings.TrimSpace(line)
		if strings.HasPrefix(line, ";; const ") {
			f := strings.Fields(line[9:])
			if len(f) != 2 {
				return fmt.Errorf("%s: bad const %q", path, line)
			}
			cs, err := parseSortAbbrev(f[1])
			if err != nil {
				return fmt.Errorf("%s: %v", path, err)
			}
			sl.Consts[f[0]] = Term{f[0], cs}
		}
		if strings.HasPrefix(line, ";; sig ") {
			rest := strings.TrimSpace(line[7:])
			i, j := strings.Index(rest, "("), strings.LastIndex(rest, ")")
			if i < 0 || j < i {
				return fmt.Errorf("%s: bad sig %q", path, line)
			}
			name := strings.TrimSpace(rest[:i])
			sf := &SpecFunc{SMTName: name}
			if ps := strings.TrimSpace(rest[i+1 : j]); ps != "" {
				for _, p := range strings.Split(ps, ",") {
					s, err := parseSortAbbrev(p)
					if err != nil {
						return fmt.Errorf("%s: %v", path, err)
					}
					sf.Params = append(sf.Params, s)
				}
			}
			rs, err := parseSortAbbrev(rest[j+1:])
			if err != nil {
				return fmt.Errorf("%s: %v", path, err)
			}
			sf.Result = rs
			sl.Funcs[name] = sf
		}
	}
	return nil
}

// unspecified returns fresh unconstrained values of the same shape.
func (e *Env) unspecified(v Val) Val {
	switch x := v.(type) {
	case Term:
		tgt := e.st
		if e.nm != nil {
			tgt = e.nm
		}
		return Term{tgt.declare(e.r.freshName("unspec"), x.Sort).S, x.Sort}
	case *StructVal:
		out := &StructVal{T: x.T, N: x.N}
		for _, f := range x.F {
			out.F = append(out.F, e.unspecified(f))
		}
		return out
	}
	return v
}

// forallPat builds a universal quantifier; when every bound variable occurs as
// a direct argument of some ghost-function application in the body, those
// applications become the instantiation pattern (arithmetic inside memory
// addresses is useless as a trigger).
func forallPat(vars []Term, body Term) Term {
	if len(vars) == 0 || body.S == "true" {
		return body
	}
	var pats []string
	covered := map[string]bool{}
	seen := map[string]bool{}
	text := body.S
	idx := 0
	for {
		k := strings.Index(text[idx:], "(gf_")
		if k < 0 {
			break
		}
		p := idx + k
		j := p + 1
		for j < len(text) && text[j] != ' ' {
			j++
		}
		args, end := scanSexprArgs(text, j)
		idx = p + 4
		if end < 0 {
			continue
		}
		appl := text[p:end]
		if seen[appl] || strings.Contains(appl, "(forall") || strings.Contains(appl, "(exists") {
			continue
		}
		hit := false
		for _, a := range args {
			for _, v := range vars {
				if a == v.S {
					covered[v.S] = true
					hit = true
				}
			}
		}
		if hit {
			seen[appl] = true
			pats = append(pats, appl)
		}
	}
	if len(covered) != len(vars) || len(pats) == 0 || len(pats) > 4 {
		return Forall(vars, body)
	}
	var sb strings.Builder
	sb.WriteString("(forall (")
	for _, v := range vars {
		fmt.Fprintf(&sb, "(%s %s)", v.S, v.Sort.SMT())
	}
	sb.WriteString(") (! ")
	sb.WriteString(body.S)
	sb.WriteString(" :pattern (")
	sb.WriteString(strings.Join(pats, " "))
	sb.WriteString(")))")
	return Term{sb.String(), BoolSort()}
}
