package vc

import (
	"fmt"
	"go/ast"
	"go/constant"
	"go/token"
	"go/types"
	"hash/crc32"
	"math/big"
	"sort"
	"strings"

	"golang.org/x/tools/go/ssa"
)

// ---------------------------------------------------------------------------

type Engine struct {
	Prog       *ssa.Program
	Sizes      types.Sizes
	Contracts  map[string]*FuncContract // key: full function name as printed by go/ssa (origin for generics)
	Specs      *SpecLib
	Intrinsics map[string]Intrinsic
	MaxPaths   int
	Trusted    map[string]bool // names of trusted contracts/intrinsics actually used
	Notes      map[string]bool // modelling notes (inline, unsupported) actually hit
	AtCallHit  map[string]bool // fn#clause-index of at_call clauses that matched a call site
	LockHook   lockHook
	GhostFns   map[string]*GhostFn
	Ld         *Loaded // the module being verified (syntax for replay extraction)
}

type Intrinsic func(r *FnRun, st *State, call ssa.CallInstruction, args []Val) (Val, bool)

type Goal struct {
	Oblig  string // aggregated obligation name: <pkg>.<func>/<kind>[.<label>]
	Detail string
	Prefix []LogItem
	Goal   Term
	Props  []string // properties this goal counts for (empty = all of the function's)
	Expect string   // "unsat" normally; "sat" for cover checks
	Trace  []string
	Fn     string
	Run    *FnRun
	Raw    string                                                           // complete SMT-LIB query (used by checks that build their own VCs)
	Retry  func() string                                                    // on a `sat` answer: a second, more concrete query whose answer decides
	Replay func(model string, opts *Options) (map[string]interface{}, bool) // run the counterexample on the real code
}

type Outcome struct {
	Kind    string // return | panic
	St      *State
	Results []Val
	PanicV  Val
	Why     string // for panics: explicit | callee:<name> | implicit:<kind>
}

type FnRun struct {
	E            *Engine
	Fn           *ssa.Function
	C            *FuncContract
	fresh        int
	parent       *FnRun
	depth        int
	Goals        []*Goal
	Outcomes     []*Outcome
	Entry        *State
	params       map[string]Val
	ptypes       map[string]types.Type
	lets         map[string]Val
	paths        int
	loops        map[*ssa.BasicBlock]*loopInfo
	loopOrd      []*ssa.BasicBlock
	siteCnt      map[string]int
	siteIdx      map[ssa.Instruction]int
	Unsupp       []string
	implicit     bool // implicit panics are outcomes, not obligations
	idoms        map[*ssa.BasicBlock]*ssa.BasicBlock
	LazyDecls    []LogItem
	lazyDeclared map[string]bool
	arrSorts     map[string]Sort
	ghostDecls   map[string]string
	intMode      bool
	pendingFree  map[string]Val
	loopHavoc    bool
	FnName       string
	ld           *Loaded
}

type loopInfo struct {
	head      *ssa.BasicBlock
	ord       int
	body      map[*ssa.BasicBlock]bool
	cells     map[*ssa.Alloc]bool
	mems      map[string]bool
	allMem    bool
	hasCall   bool
	hasWait   bool
	atomics   bool
	frameArrs map[string]bool
}

func (r *FnRun) freshName(hint string) string {
	root := r
	for root.parent != nil {
		root = root.parent
	}
	root.fresh++
	return fmt.Sprintf("%s_%d", mangle(hint), root.fresh)
}

func fullName(fn *ssa.Function) string {
	if o := fn.Origin(); o != nil {
		fn = o
	}
	return fn.String()
}

func shortFn(fn *ssa.Function) string {
	s := fn.String()
	if fn.Pkg != nil {
		p := fn.Pkg.Pkg.Path()
		s = strings.Replace(s, p, fn.Pkg.Pkg.Name(), 1)
	}
	return s
}

// VerifyFunc symbolically executes fn against its contract and returns the
// generated goals.
func (e *Engine) VerifyFunc(fn *ssa.Function, c *FuncContract) (run *FnRun) {
	r := &FnRun{E: e, Fn: fn, C: c, params: map[string]Val{}, ptypes: map[string]types.Type{}, lets: map[string]Val{},
		loops: map[*ssa.BasicBlock]*loopInfo{}, siteCnt: map[string]int{}, siteIdx: map[ssa.Instruction]int{}, FnName: shortFn(fn), ld: e.Ld}
	r.implicit = c.Opts["implicit_panics"] == "allowed"
	IntMode = c.Arith == "int"
	r.intMode = IntMode
	defer func() { IntMode = false }()
	defer func() {
		if x := recover(); x != nil {
			if u, ok := x.(unsupportedErr); ok {
				r.Unsupp = append(r.Unsupp, "fatal: "+u.why)
				run = r
				return
			}
			panic(x)
		}
	}()
	r.numberSites()
	r.findLoops()
	st := &State{regs: map[ssa.Value]Val{}, cells: map[*ssa.Alloc]Val{}, mem: map[string]Term{}, ghost: map[string]Val{},
		locks: map[string]int{}, loopM: map[*ssa.BasicBlock]Term{}, loopIn: map[*ssa.BasicBlock]bool{}, run: r}
	for _, m := range MemNames {
		st.mem[m] = st.declare(m+"_0", memSort(m))
	}
	for _, p := range fn.Params {
		v := r.freshVal(st, "p_"+p.Name(), p.Type())
		st.regs[p] = v
		r.params[p.Name()] = v
		r.ptypes[p.Name()] = p.Type()
		r.assumeTypeInv(st, v, p.Type())
	}
	for _, fv := range fn.FreeVars {
		// a closure's captured variables: pointers to the enclosing function's cells
		pt, isPtr := fv.Type().Underlying().(*types.Pointer)
		if isPtr {
			addr := st.declare(r.freshName("fv_"+fv.Name()), BV(PtrW, false))
			st.assume(Not(Eq(addr, BVInt(0, PtrW, false))), "captured variable address")
			r.assumeValid(st, addr, BVInt(r.E.Sizes.Sizeof(pt.Elem()), 64, false), false)
			st.regs[fv] = addr
			v := r.loadAt(st, addr, pt.Elem())
			r.params[fv.Name()] = v
			r.ptypes[fv.Name()] = pt.Elem()
			r.assumeTypeInv(st, v, pt.Elem())
		} else {
			v := r.freshVal(st, "fv_"+fv.Name(), fv.Type())
			st.regs[fv] = v
			r.params[fv.Name()] = v
			r.ptypes[fv.Name()] = fv.Type()
		}
	}
	r.Entry = st
	// package-level variables the contract declares constant: checked syntactically
	// (nothing in the package stores to them or lets their address escape), then
	// their zero value is assumed
	for _, gname := range strings.Fields(strings.ReplaceAll(c.Opts["constglobals"], ",", " ")) {
		g, _ := fn.Pkg.Members[gname].(*ssa.Global)
		if g == nil {
			r.Unsupp = append(r.Unsupp, "constglobals: no package-level variable "+gname)
			continue
		}
		if why := globalNeverWritten(fn.Pkg, g); why != "" {
			r.Unsupp = append(r.Unsupp, "constglobals: "+gname+" is not constant: "+why)
			continue
		}
		et := g.Type().(*types.Pointer).Elem()
		cur := r.loadAt(st, r.globalAddr(st, g).(Term), et)
		st.assume(identVals(cur, r.zeroVal(et)), "package-level variable "+gname+" is never written (checked over the package's SSA): it holds its zero value")
		r.E.Notes["package-level variable "+gname+" holds its zero value: no instruction of the package stores to it or takes its address for anything but a load (checked on every run)"] = true
	}
	// requires (assumed), lets
	env := r.env(st, st)
	env.assuming = true
	for _, cl := range c.Clauses {
		switch cl.Kind {
		case "let":
			v := env.eval(cl.E)
			r.lets[cl.Name] = v
		case "requires":
			t := env.evalBool(cl.E)
			st.assume(t, "requires "+cl.Label)
		}
	}
	r.Entry = st.clone()
	// vacuity: the precondition must be satisfiable
	r.addGoalRaw(&Goal{Oblig: r.FnName + "/cover.requires", Prefix: st.log[:len(st.log):len(st.log)], Goal: False, Expect: "sat"})
	r.execBlock(fn.Blocks[0], nil, st.clone())
	r.finish()
	return r
}

// assumeTypeInv assumes the representation invariants of Go-typed inputs
// (strings and slices handed over by Go code are well formed).
func (r *FnRun) assumeTypeInv(st *State, v Val, t types.Type) {
	switch u := t.Underlying().(type) {
	case *types.Basic:
		if u.Info()&types.IsString != 0 {
			sv := v.(*StructVal)
			ln := sv.F[1].(Term)
			st.assume(Le(BVInt(0, 64, true), ln), "string len >= 0")
			r.assumeValid(st, sv.F[0].(Term), ln, false)
		}
	case *types.Pointer:
		// a non-nil *T points to a T-sized object inside the address space
		if _, isStruct := u.Elem().Underlying().(*types.Struct); isStruct {
			p := v.(Term)
			nz := Not(Eq(p, BVInt(0, PtrW, false)))
			size := BVInt(r.E.Sizes.Sizeof(u.Elem()), 64, false)
			st.assume(Implies(nz, validTerm(p, size)), "typed pointer points to an object")
			st.regions = append(st.regions, Region{Base: p, Size: size, Cond: nz})
		}
	case *types.Slice:
		sv := v.(*StructVal)
		ln, cp := sv.F[1].(Term), sv.F[2].(Term)
		st.assume(And(Le(BVInt(0, 64, true), ln), Le(ln, cp)), "slice 0 <= len <= cap")
		esz := r.E.Sizes.Sizeof(u.Elem())
		st.assume(Lt(cp, BVInt(1<<46/maxI64(esz, 1), 64, true)), "slice cap bound")
		r.assumeValid(st, sv.F[0].(Term), Mul(cp, BVInt(esz, 64, true)), false)
	}
}

func maxI64(a, b int64) int64 {
	if a > b {
		return a
	}
	return b
}

const addrLimit = int64(1) << 48

// assumeValid registers [p, p+n) as a valid region in the user address space.
func (r *FnRun) assumeValid(st *State, p, n Term, fresh bool) {
	st.assume(validTerm(p, n), "valid region")
	st.regions = append(st.regions, Region{Base: p, Size: Term{n.S, BV(64, false)}, Fresh: fresh, Cond: True})
}

func validTerm(p, n Term) Term {
	nu := Term{n.S, BV(64, false)}
	lim := BVInt(addrLimit, 64, false)
	pu := Term{p.S, BV(64, false)}
	if IntMode {
		z := BVInt(0, 64, false)
		return And(Le(z, nu), Le(z, pu), Le(nu, lim), Le(pu, Sub(lim, nu)), Implies(Not(Eq(nu, z)), Not(Eq(pu, z))))
	}
	return And(Le(nu, lim), Le(pu, Sub(lim, nu)), Implies(Not(Eq(nu, BVInt(0, 64, false))), Not(Eq(pu, BVInt(0, 64, false)))))
}

func disjointTerm(p, n, q, m Term) Term {
	// [p,p+n) and [q,q+m) do not intersect (no wrap: both valid)
	pu, qu := Term{p.S, BV(64, false)}, Term{q.S, BV(64, false)}
	nu, mu := Term{n.S, BV(64, false)}, Term{m.S, BV(64, false)}
	return Or(Le(Add(pu, nu), qu), Le(Add(qu, mu), pu), Eq(nu, BVInt(0, 64, false)), Eq(mu, BVInt(0, 64, false)))
}

func (r *FnRun) numberSites() {
	// deterministic site ordinals per kind, in source-position order
	type site struct {
		ins  ssa.Instruction
		kind string
		pos  token.Pos
		seq  int
	}
	var sites []site
	seq := 0
	for _, b := range r.Fn.Blocks {
		for _, ins := range b.Instrs {
			k := ""
			switch x := ins.(type) {
			case *ssa.IndexAddr, *ssa.Index, *ssa.Lookup:
				k = "index"
			case *ssa.Slice:
				k = "slice"
			case *ssa.BinOp:
				switch x.Op {
				case token.QUO, token.REM:
					k = "div"
				case token.SHL, token.SHR:
					k = "shift"
				}
			case *ssa.UnOp:
				if x.Op == token.MUL {
					k = "deref"
				}
			case *ssa.Store:
				k = "store"
			case ssa.CallInstruction:
				k = "call"
			case *ssa.FieldAddr:
				k = "fieldaddr"
			case *ssa.Panic:
				k = "panic"
			case *ssa.MakeSlice:
				k = "makeslice"
			}
			if k != "" {
				sites = append(sites, site{ins, k, ins.Pos(), seq})
				seq++
			}
		}
	}
	sort.SliceStable(sites, func(i, j int) bool {
		if sites[i].pos != sites[j].pos && sites[i].pos.IsValid() && sites[j].pos.IsValid() {
			return sites[i].pos < sites[j].pos
		}
		return sites[i].seq < sites[j].seq
	})
	for _, s := range sites {
		r.siteCnt[s.kind]++
		r.siteIdx[s.ins] = r.siteCnt[s.kind]
	}
}

func (r *FnRun) findLoops() {
	fn := r.Fn
	var heads []*ssa.BasicBlock
	for _, b := range fn.Blocks {
		for _, p := range b.Preds {
			if b.Dominates(p) {
				if r.loops[b] == nil {
					r.loops[b] = &loopInfo{head: b, body: map[*ssa.BasicBlock]bool{b: true}, cells: map[*ssa.Alloc]bool{}, mems: map[string]bool{}}
					heads = append(heads, b)
				}
				// natural loop of back edge p->b
				li := r.loops[b]
				var stack []*ssa.BasicBlock
				if !li.body[p] {
					li.body[p] = true
					stack = append(stack, p)
				}
				for len(stack) > 0 {
					x := stack[len(stack)-1]
					stack = stack[:len(stack)-1]
					for _, q := range x.Preds {
						if !li.body[q] {
							li.body[q] = true
							stack = append(stack, q)
						}
					}
				}
			}
		}
	}
	sort.Slice(heads, func(i, j int) bool { return heads[i].Index < heads[j].Index })
	for i, h := range heads {
		li := r.loops[h]
		li.ord = i + 1
		for b := range li.body {
			for _, ins := range b.Instrs {
				switch x := ins.(type) {
				case *ssa.Store:
					if a := rootAlloc(x.Addr); a != nil && !a.Heap {
						li.cells[a] = true
					} else if fa, ok := x.Addr.(*ssa.FieldAddr); ok && r.markFieldStore(li, fa) {
					} else {
						pt, ok := x.Addr.Type().Underlying().(*types.Pointer)
						if ok {
							r.markMems(li, pt.Elem())
						} else {
							li.allMem = true
						}
					}
				case ssa.CallInstruction:
					r.loopCallEffect(li, x)
				case *ssa.MapUpdate:
					li.allMem = true
				}
			}
		}
	}
	r.loopOrd = heads
}

// loopCallEffect: which heap arrays a call inside a loop may change.
func (r *FnRun) loopCallEffect(li *loopInfo, c ssa.CallInstruction) {
	if _, ok := c.Common().Value.(*ssa.Builtin); ok {
		return
	}
	callee := c.Common().StaticCallee()
	if callee == nil {
		li.hasCall = true
		return
	}
	name := fullName(callee)
	if k, ok := lockOps[name]; ok {
		if k == lkWait || k == lkLock {
			li.hasWait = true
			for _, l := range r.C.Locks {
				for _, p := range l.Protects {
					for _, item := range strings.Split(p, ",") {
						item = strings.TrimSpace(item)
						if strings.HasPrefix(item, "bytes(") || !strings.Contains(item, ".") {
							li.mems["M8"] = true
							continue
						}
						j := strings.LastIndex(item, ".")
						base, fname := strings.TrimSpace(item[:j]), item[j+1:]
						for _, prm := range r.Fn.Params {
							if prm.Name() != base {
								continue
							}
							if pt, ok := prm.Type().Underlying().(*types.Pointer); ok {
								if stt, ok := pt.Elem().Underlying().(*types.Struct); ok {
									for i := 0; i < stt.NumFields(); i++ {
										if stt.Field(i).Name() == fname {
											if comps, ok := r.fieldComps(structKey(pt.Elem()), stt, i); ok {
												for _, c := range comps {
													li.mems[c.Arr] = true
													r.noteArrSort(c.Arr, c.Sort)
												}
											}
										}
									}
								}
							}
						}
					}
				}
			}
		}
		return
	}
	if strings.HasPrefix(name, atomicPkg+".") {
		li.atomics = true
		li.allMem = true
		return
	}
	switch name {
	case clitePkg + ".Advance", rtPkg + "/math.MulUintptr":
		return
	case clitePkg + ".Memcpy", clitePkg + ".Memmove", clitePkg + ".Memset":
		li.mems["M8"] = true
		return
	}
	if cc, ok := r.E.Contracts[name]; ok {
		pure := len(cc.Modifies) > 0
		specific := len(cc.Modifies) > 0
		for _, m := range cc.Modifies {
			if m != "nothing" {
				pure = false
			}
			if m == "everything" {
				specific = false
			}
		}
		if pure {
			return
		}
		if specific && r.loopModifies(li, callee, cc) {
			return
		}
	}
	li.hasCall = true
}

// loopModifies marks the arrays a callee's `modifies object(p) / p.f / bytes()`
// clause can touch (resolved through the callee's parameter types).
func (r *FnRun) loopModifies(li *loopInfo, callee *ssa.Function, cc *FuncContract) bool {
	ptype := map[string]types.Type{}
	sig := callee.Signature
	if recv := sig.Recv(); recv != nil {
		ptype[recv.Name()] = recv.Type()
	}
	for i := 0; i < sig.Params().Len(); i++ {
		ptype[sig.Params().At(i).Name()] = sig.Params().At(i).Type()
	}
	for _, m := range cc.Modifies {
		if m == "nothing" {
			continue
		}
		for _, item := range strings.Split(m, ",") {
			item = strings.TrimSpace(item)
			switch {
			case strings.HasPrefix(item, "bytes("):
				li.mems["M8"] = true
			case strings.HasPrefix(item, "array(") && strings.HasSuffix(item, ")"):
				nm := item[6 : len(item)-1]
				root := r
				for root.parent != nil {
					root = root.parent
				}
				if _, known := root.arrSorts[nm]; !known {
					return false // element sort unknown here: treat the call as writing anything
				}
				li.mems[nm] = true
			case strings.HasPrefix(item, "object(") && strings.HasSuffix(item, ")"):
				t, ok := ptype[strings.TrimSpace(item[7:len(item)-1])]
				if !ok {
					return false
				}
				pt, ok := t.Underlying().(*types.Pointer)
				if !ok {
					return false
				}
				for _, ai := range r.objectArrays(pt.Elem(), BVInt(0, 64, false)) {
					li.mems[ai.Arr] = true
					r.noteArrSort(ai.Arr, ai.Sort)
				}
			default:
				return false
			}
		}
	}
	return true
}

func (r *FnRun) markFieldStore(li *loopInfo, fa *ssa.FieldAddr) bool {
	pt, ok := fa.X.Type().Underlying().(*types.Pointer)
	if !ok {
		return false
	}
	stt, ok := pt.Elem().Underlying().(*types.Struct)
	if !ok {
		return false
	}
	comps, ok := r.fieldComps(structKey(pt.Elem()), stt, fa.Field)
	if !ok {
		return false
	}
	for _, c := range comps {
		li.mems[c.Arr] = true
		r.noteArrSort(c.Arr, c.Sort)
	}
	return true
}

func (r *FnRun) noteArrSort(name string, s Sort) {
	root := r
	for root.parent != nil {
		root = root.parent
	}
	if root.arrSorts == nil {
		root.arrSorts = map[string]Sort{}
	}
	root.arrSorts[name] = s
}

func (r *FnRun) markMems(li *loopInfo, t types.Type) {
	if _, ok := r.E.scalarSort(t); ok {
		n, _ := r.E.memFor(t)
		li.mems[n] = true
		return
	}
	switch u := t.Underlying().(type) {
	case *types.Struct:
		for i := 0; i < u.NumFields(); i++ {
			r.markMems(li, u.Field(i).Type())
		}
	case *types.Array:
		r.markMems(li, u.Elem())
	case *types.Basic, *types.Slice, *types.Interface:
		li.mems["M64"] = true // string / slice / interface headers are words
	default:
		li.mems["M64"] = true
		li.mems["M8"] = true
	}
}

func rootAlloc(v ssa.Value) *ssa.Alloc {
	for {
		switch x := v.(type) {
		case *ssa.Alloc:
			return x
		case *ssa.FieldAddr:
			v = x.X
		case *ssa.IndexAddr:
			v = x.X
		default:
			return nil
		}
	}
}

// ---------------------------------------------------------------------------
// goals

func (r *FnRun) addGoalRaw(g *Goal) {
	if g.Expect == "" {
		g.Expect = "unsat"
	}
	g.Fn = r.FnName
	g.Run = r
	r.Goals = append(r.Goals, g)
	root := r
	for root.parent != nil {
		root = root.parent
	}
	root.siteCnt["goals"]++
	if root.siteCnt["goals"] == 6001 {
		panic(unsupported("more than 6000 verification conditions for one function (path explosion)"))
	}
}

func (r *FnRun) addGoal(st *State, oblig, detail string, t Term, props []string) {
	if t.S == "true" {
		// still count it: trivially discharged goals are recorded as such
		r.addGoalRaw(&Goal{Oblig: r.FnName + "/" + oblig, Detail: detail, Prefix: nil, Goal: True, Props: props, Trace: st.trace})
		return
	}
	r.addGoalRaw(&Goal{Oblig: r.FnName + "/" + oblig, Detail: detail, Prefix: st.log[:len(st.log):len(st.log)], Goal: t, Props: props,
		Trace: st.trace[:len(st.trace):len(st.trace)]})
}

func clauseName(kind string, cl *Clause, idx int) string {
	if cl.Label != "" {
		return kind + "." + cl.Label
	}
	return fmt.Sprintf("%s#%d", kind, idx)
}

// ---------------------------------------------------------------------------
// block execution

func (r *FnRun) execBlock(b *ssa.BasicBlock, from *ssa.BasicBlock, st *State) {
	r.execBlockPhi(b, from, st, nil)
}

func (r *FnRun) execBlockPhi(b *ssa.BasicBlock, from *ssa.BasicBlock, st *State, phiOverride map[*ssa.Phi]Val) {
	r.paths++
	if r.paths > r.E.MaxPaths {
		panic(unsupported("path explosion"))
	}
	defer func() {
		if x := recover(); x != nil {
			if u, ok := x.(unsupportedErr); ok {
				r.Unsupp = append(r.Unsupp, fmt.Sprintf("block %d: %s", b.Index, u.why))
				return
			}
			panic(x)
		}
	}()
	// phis first (simultaneous assignment)
	edge := -1
	if from != nil {
		for i, p := range b.Preds {
			if p == from {
				edge = i
			}
		}
	}
	li := r.loops[b]
	phiVals := map[*ssa.Phi]Val{}
	for _, ins := range b.Instrs {
		phi, ok := ins.(*ssa.Phi)
		if !ok {
			break
		}
		if phiOverride != nil {
			phiVals[phi] = phiOverride[phi]
			continue
		}
		phiVals[phi] = r.operand(st, phi.Edges[edge])
	}
	for phi, v := range phiVals {
		st.regs[phi] = v
	}
	if li != nil {
		isBack := from != nil && li.body[from] && st.loopIn[b]
		if isBack {
			// arbitrary iteration completed: invariant preserved, measure decreased
			r.checkInvariants(st, li, "inv-preserved")
			var fa []string
			for m := range li.frameArrs {
				fa = append(fa, m)
			}
			sort.Strings(fa)
			for _, m := range fa {
				r.addGoal(st, fmt.Sprintf("loop%d/frame-preserved.%s", li.ord, m), "", r.entryFrame(st, m), nil)
			}
			if m0, ok := st.loopM[b]; ok {
				for _, cl := range r.C.ByKind("decreases") {
					if cl.Loop != li.ord {
						continue
					}
					env := r.envAt(st, b)
					m1 := env.evalTerm(cl.E)
					r.addGoal(st, fmt.Sprintf("loop%d/decreases", li.ord), "", And(Le(zeroLike(m0), m0), Lt(m1, m0)), cl.Props)
				}
			}
			return
		}
		// entry: establish, havoc, assume
		r.checkInvariants(st, li, "inv-init")
		r.havocLoop(st, li, b)
		st.loopIn[b] = true
		env := r.envAt(st, b)
		env.assuming = true
		n := 0
		for _, cl := range r.C.ByKind("invariant") {
			if cl.Loop == li.ord {
				st.assume(env.evalBool(cl.E), fmt.Sprintf("loop %d invariant %s", li.ord, cl.Label))
				n++
			}
		}
		if n == 0 && r.C.Opts["loops"] != "noinv" {
			r.Unsupp = append(r.Unsupp, fmt.Sprintf("loop %d has no invariant", li.ord))
		}
		for _, cl := range r.C.ByKind("decreases") {
			if cl.Loop == li.ord {
				env := r.envAt(st, b)
				st.loopM[b] = st.name("measure", env.evalTerm(cl.E))
			}
		}
		if li.hasWait && st.csAcq != nil {
			// the head of an arbitrary iteration is (re)entered right after an acquisition
			st.csAcq = st.clone()
			st.csAcq.csAcq = st.csAcq
		}
		st.addTrace("loop %d: arbitrary iteration", li.ord)
	}
	r.execFrom(b, 0, st)
}

// execFrom continues a path inside block b at instruction index i.
func (r *FnRun) execFrom(b *ssa.BasicBlock, i int, st *State) {
	defer func() {
		if x := recover(); x != nil {
			if u, ok := x.(unsupportedErr); ok {
				r.Unsupp = append(r.Unsupp, fmt.Sprintf("block %d: %s", b.Index, u.why))
				return
			}
			panic(x)
		}
	}()
	for ; i < len(b.Instrs); i++ {
		ins := b.Instrs[i]
		if _, ok := ins.(*ssa.Phi); ok {
			continue
		}
		if done := r.execInstr(b, i, ins, st); done {
			return
		}
	}
}

func zeroLike(t Term) Term { return BVInt(0, t.Sort.W, t.Sort.Signed) }

func (r *FnRun) checkInvariants(st *State, li *loopInfo, kind string) {
	env := r.envAt(st, li.head)
	i := 0
	for _, cl := range r.C.ByKind("invariant") {
		if cl.Loop != li.ord {
			continue
		}
		i++
		t := env.evalBool(cl.E)
		r.addGoal(st, fmt.Sprintf("loop%d/%s", li.ord, clauseName(kind, cl, i)), "", t, cl.Props)
	}
}

func (r *FnRun) havocLoop(st *State, li *loopInfo, b *ssa.BasicBlock) {
	for _, ins := range b.Instrs {
		phi, ok := ins.(*ssa.Phi)
		if !ok {
			break
		}
		st.regs[phi] = r.freshVal(st, "l"+fmt.Sprint(li.ord)+"_"+phi.Comment, phi.Type())
	}
	var cells []*ssa.Alloc
	for a := range li.cells {
		cells = append(cells, a)
	}
	sort.Slice(cells, func(i, j int) bool { return cells[i].Name() < cells[j].Name() })
	for _, a := range cells {
		st.cells[a] = r.freshVal(st, "l"+fmt.Sprint(li.ord)+"_"+a.Comment, a.Type().Underlying().(*types.Pointer).Elem())
	}
	names := allArrays(st)
	for m := range li.mems {
		if _, ok := st.mem[m]; !ok {
			names = append(names, m)
		}
	}
	sort.Strings(names)
	for _, m := range names {
		if li.allMem || li.mems[m] || li.hasCall {
			st.mem[m] = st.declare(r.freshName(m+"_l"+fmt.Sprint(li.ord)), fieldArraySort(r.arrElemSort(m)))
			// implicit loop invariant (checked at every back edge): memory that was
			// valid at function entry and is not covered by `modifies` keeps its
			// entry contents; only memory allocated by this invocation may differ
			if len(r.C.Locks) == 0 && !li.atomics {
				st.assume(r.entryFrame(st, m), "implicit loop frame invariant for "+m)
				r.loopHavoc = true
				if li.frameArrs == nil {
					li.frameArrs = map[string]bool{}
				}
				li.frameArrs[m] = true
			}
		}
	}
	if li.allMem || li.hasCall {
		st.epoch++
	}
	if li.atomics {
		for _, g := range []string{"cas_dec", "cas_other", "add_one", "add_other", "stores", "signals", "broadcasts"} {
			st.ghost["ghost:"+g] = st.declare(r.freshName("gh_"+g), BV(32, false))
		}
	}
}

func (r *FnRun) operand(st *State, v ssa.Value) Val {
	switch x := v.(type) {
	case *ssa.Const:
		return r.constVal(st, x)
	case *ssa.Function:
		return &FuncRef{x}
	case *ssa.Global:
		return r.globalAddr(st, x)
	case *ssa.Builtin:
		return x
	}
	if val, ok := st.regs[v]; ok {
		return val
	}
	panic(unsupported(fmt.Sprintf("value %s (%T) not available on this path", v.Name(), v)))
}

func (r *FnRun) globalAddr(st *State, g *ssa.Global) Val {
	name := "g_" + mangle(g.Pkg.Pkg.Name()+"_"+g.Name())
	key := "global:" + name
	if v, ok := st.ghost[key]; ok {
		return v
	}
	t := st.declare(name, BV(PtrW, false))
	st.assume(Not(Eq(t, BVInt(0, PtrW, false))), "address of a package-level variable is non-nil")
	st.ghost[key] = t
	return t
}

func (r *FnRun) constVal(st *State, c *ssa.Const) Val {
	t := c.Type()
	if c.Value == nil {
		return r.zeroVal(t)
	}
	if s, ok := r.E.scalarSort(t); ok {
		switch s.K {
		case KBool:
			if constant.BoolVal(c.Value) {
				return True
			}
			return False
		case KBV, KInt:
			v, _ := new(big.Int).SetString(c.Value.ExactString(), 10)
			if v == nil {
				iv, _ := constant.Int64Val(constant.ToInt(c.Value))
				v = big.NewInt(iv)
			}
			return BVConst(v, s.W, s.Signed)
		case KFP:
			f, _ := constant.Float64Val(c.Value)
			return fpConst(f, s.W)
		}
	}
	if b, ok := t.Underlying().(*types.Basic); ok && b.Info()&types.IsComplex != 0 {
		w := 64
		if b.Kind() == types.Complex64 {
			w = 32
		}
		re, _ := constant.Float64Val(constant.Real(c.Value))
		im, _ := constant.Float64Val(constant.Imag(c.Value))
		return &StructVal{N: []string{"re", "im"}, F: []Val{fpConst(re, w), fpConst(im, w)}}
	}
	if b, ok := t.Underlying().(*types.Basic); ok && b.Info()&types.IsString != 0 {
		sval := constant.StringVal(c.Value)
		return r.stringLit(st, sval)
	}
	panic(unsupported("constant of type " + t.String()))
}

func fpConst(f float64, w int) Term {
	if w == 32 {
		return Term{fmt.Sprintf("((_ to_fp 8 24) RNE %s)", realLit(f)), FPSort(32)}
	}
	return Term{fmt.Sprintf("((_ to_fp 11 53) RNE %s)", realLit(f)), FPSort(64)}
}

func realLit(f float64) string {
	r := new(big.Rat)
	r.SetFloat64(f)
	s := fmt.Sprintf("(/ %s.0 %s.0)", new(big.Int).Abs(r.Num()).String(), r.Denom().String())
	if r.Sign() < 0 {
		return "(- " + s + ")"
	}
	return s
}

// stringLit models a string constant: a symbolic address per distinct
// literal, constant length, bytes known.
func (r *FnRun) stringLit(st *State, s string) Val {
	key := "strlit:" + s
	if v, ok := st.ghost[key]; ok {
		return v
	}
	if len(s) == 0 {
		v := &StructVal{N: stringFields, F: []Val{BVInt(0, PtrW, false), BVInt(0, 64, true)}}
		st.ghost[key] = v
		return v
	}
	addr := st.declare(r.freshName("strlit"), BV(PtrW, false))
	r.assumeValid(st, addr, BVInt(int64(len(s)), 64, true), false)
	if len(s) <= 64 {
		for i := 0; i < len(s); i++ {
			st.assume(Eq(Select(st.memArr("M8"), Add(addr, BVInt(int64(i), 64, false))), BVInt(int64(s[i]), 8, false)), "string literal byte")
		}
	}
	v := &StructVal{N: stringFields, F: []Val{addr, BVInt(int64(len(s)), 64, true)}}
	st.ghost[key] = v
	st.ghost["strtext:"+addr.S] = s
	st.assume(Ident(strRank(st.memArr("M8"), v), Term{fmt.Sprintf("(strlit_id %d)", crc32.ChecksumIEEE([]byte(s))), Sort{K: KInt, W: 64, Signed: true}}), "identity of the string literal")
	return v
}

// ---------------------------------------------------------------------------
// instructions

func (r *FnRun) execInstr(b *ssa.BasicBlock, idx int, ins ssa.Instruction, st *State) (done bool) {
	switch x := ins.(type) {
	case *ssa.DebugRef:
		return false
	case *ssa.Alloc:
		elem := x.Type().Underlying().(*types.Pointer).Elem()
		if !x.Heap || closurePrivate(x) {
			// a variable captured by closures that only read it is still private to this
			// function: no callee can change it
			st.cells[x] = r.zeroVal(elem)
			st.regs[x] = &LocalPtr{A: x}
		} else {
			st.regs[x] = r.allocFresh(st, x.Comment, elem)
		}
	case *ssa.BinOp:
		st.regs[x] = st.nameVal(x.Name(), r.binop(st, x))
	case *ssa.UnOp:
		st.regs[x] = st.nameVal(x.Name(), r.unop(st, x))
	case *ssa.Convert:
		st.regs[x] = r.convert(st, r.operand(st, x.X), x.X.Type(), x.Type())
	case *ssa.ChangeType:
		st.regs[x] = r.operand(st, x.X)
	case *ssa.FieldAddr:
		st.regs[x] = r.fieldAddr(st, x)
	case *ssa.Field:
		sv, ok := r.operand(st, x.X).(*StructVal)
		if !ok {
			panic(unsupported("Field of non-struct value"))
		}
		st.regs[x] = sv.F[x.Field]
	case *ssa.IndexAddr:
		st.regs[x] = r.indexAddr(st, x)
	case *ssa.Index:
		st.regs[x] = r.index(st, x)
	case *ssa.Lookup:
		st.regs[x] = r.lookup(st, x)
	case *ssa.Slice:
		st.regs[x] = r.slice(st, x)
	case *ssa.Store:
		r.store(st, x, r.operand(st, x.Addr), r.operand(st, x.Val), x.Val.Type())
	case *ssa.Phi:
	case *ssa.Extract:
		tv, ok := r.operand(st, x.Tuple).(*TupleVal)
		if !ok {
			panic(unsupported("Extract of non-tuple"))
		}
		st.regs[x] = tv.E[x.Index]
	case *ssa.MakeInterface:
		st.regs[x] = &IfaceVal{Dyn: x.X.Type(), V: r.operand(st, x.X), Desc: typeKey(x.X.Type())}
	case *ssa.ChangeInterface:
		st.regs[x] = r.operand(st, x.X)
	case *ssa.MakeSlice:
		st.regs[x] = r.makeSlice(st, x)
	case *ssa.MakeMap:
		st.regs[x] = r.makeMap(st, x)
	case *ssa.MapUpdate:
		r.mapUpdate(st, x)
	case *ssa.Call:
		v, ended := r.call(st, b, idx, x)
		if ended {
			return true
		}
		if v != nil {
			st.regs[x] = v
		}
	case *ssa.Jump:
		r.execBlock(b.Succs[0], b, st)
		return true
	case *ssa.If:
		c := r.operand(st, x.Cond).(Term)
		switch c.S {
		case "true":
			r.execBlock(b.Succs[0], b, st)
		case "false":
			r.execBlock(b.Succs[1], b, st)
		default:
			if r.C != nil && r.C.Opts["prune"] == "yes" {
				s1 := st.clone()
				s1.assume(c, "branch")
				s2 := st.clone()
				s2.assume(Not(c), "branch")
				switch {
				case r.infeasible(s1):
					s2.addTrace("b%d: else (then-branch infeasible)", b.Index)
					r.execBlock(b.Succs[1], b, s2)
					return true
				case r.infeasible(s2):
					s1.addTrace("b%d: then (else-branch infeasible)", b.Index)
					r.execBlock(b.Succs[0], b, s1)
					return true
				}
			}
			if r.tryMergeIf(b, c, st) {
				return true
			}
			s1 := st.clone()
			s1.assume(c, "branch")
			s1.addTrace("b%d: then", b.Index)
			if !r.infeasible(s1) {
				r.execBlock(b.Succs[0], b, s1)
			}
			st.assume(Not(c), "branch")
			st.addTrace("b%d: else", b.Index)
			if !r.infeasible(st) {
				r.execBlock(b.Succs[1], b, st)
			}
		}
		return true
	case *ssa.Return:
		var res []Val
		for _, v := range x.Results {
			res = append(res, r.operand(st, v))
		}
		r.Outcomes = append(r.Outcomes, &Outcome{Kind: "return", St: st, Results: res})
		return true
	case *ssa.Panic:
		r.Outcomes = append(r.Outcomes, &Outcome{Kind: "panic", St: st, PanicV: r.operand(st, x.X), Why: "explicit"})
		return true
	case *ssa.RunDefers:
	case *ssa.Defer:
		// deferred calls are not executed in the model; they are subject to the
		// effect allow-list like every other call
		r.E.Notes["deferred call in "+r.FnName+" not executed in the model (checked against the effect allow-list only)"] = true
		r.checkEffect(st, x, x.Common())
	case *ssa.MakeClosure:
		cv := &ClosureVal{Fn: x.Fn.(*ssa.Function)}
		for _, b := range x.Bindings {
			cv.Bindings = append(cv.Bindings, r.operand(st, b))
		}
		st.regs[x] = cv
	default:
		panic(unsupported(fmt.Sprintf("instruction %T (%s)", ins, ins)))
	}
	return false
}

// implicitCheck handles a run-time check the Go compiler inserts (bounds,
// nil, division by zero): an obligation that it cannot fail, or - when the
// contract allows implicit panics - a fork into a panic outcome.
func (r *FnRun) implicitCheck(st *State, ins ssa.Instruction, kind string, ok Term) {
	if ok.S == "true" {
		return
	}
	site := fmt.Sprintf("%s#%d", kind, r.siteIdx[ins])
	if r.implicit {
		s2 := st.clone()
		s2.assume(Not(ok), "implicit panic "+site)
		s2.addTrace("implicit panic at %s", site)
		r.Outcomes = append(r.Outcomes, &Outcome{Kind: "panic", St: s2, Why: "implicit:" + kind})
		st.assume(ok, site+" ok")
		return
	}
	r.addGoal(st, "safe."+site, r.posOf(ins), ok, nil)
	r.Goals[len(r.Goals)-1].Replay = r.scalarReplay(&Clause{Label: "safe." + site}, "no-panic")
	st.assume(ok, site+" ok")
}

func (r *FnRun) posOf(ins ssa.Instruction) string {
	p := r.E.Prog.Fset.Position(ins.Pos())
	if !p.IsValid() {
		return ""
	}
	return fmt.Sprintf("%s:%d", shortPath(p.Filename), p.Line)
}

func shortPath(p string) string {
	if i := strings.Index(p, "/repo/"); i >= 0 {
		return p[i+6:]
	}
	return p
}

func (r *FnRun) binop(st *State, x *ssa.BinOp) Val {
	a, b := r.operand(st, x.X), r.operand(st, x.Y)
	return r.binopVals(st, x, x.Op, a, b, x.X.Type())
}

func (r *FnRun) binopVals(st *State, ins ssa.Instruction, op token.Token, a, b Val, xt types.Type) Val {
	// struct-valued comparisons (strings, interfaces, structs)
	if sa, ok := a.(*StructVal); ok {
		sb, ok2 := b.(*StructVal)
		if !ok2 {
			panic(unsupported("comparison of struct with non-struct"))
		}
		if bt, isB := xt.Underlying().(*types.Basic); isB && bt.Info()&types.IsString != 0 {
			if op == token.ADD {
				// concatenation: a fresh string of the summed length (contents not modelled)
				res := r.freshVal(st, "concat", xt).(*StructVal)
				st.assume(Eq(res.F[1].(Term), Add(sa.F[1].(Term), sb.F[1].(Term))), "len(a+b) = len(a)+len(b)")
				m8 := st.memArr("M8")
				st.assume(Ident(strRank(m8, res), Term{app("sconcat_id", strRank(m8, sa), strRank(m8, sb)), Sort{K: KInt, W: 64, Signed: true}}), "contents of a+b determined by the contents of a and b")
				return res
			}
			// string comparison by contents: only against literals of known text / lengths
			return r.stringCompare(st, op, sa, sb)
		}
		if bt, isB := xt.Underlying().(*types.Basic); isB && bt.Info()&types.IsComplex != 0 {
			return r.complexOp(op, sa, sb)
		}
		var eqs []Term
		for i := range sa.F {
			e, ok := r.binopVals(st, ins, token.EQL, sa.F[i], sb.F[i], nil).(Term)
			if !ok {
				panic(unsupported("struct comparison"))
			}
			eqs = append(eqs, e)
		}
		switch op {
		case token.EQL:
			return And(eqs...)
		case token.NEQ:
			return Not(And(eqs...))
		}
		panic(unsupported("struct operator " + op.String()))
	}
	ta, ok1 := a.(Term)
	tb, ok2 := b.(Term)
	if !ok1 || !ok2 {
		panic(unsupported(fmt.Sprintf("binop %s on %T,%T", op, a, b)))
	}
	if ta.Sort.K == KBool {
		switch op {
		case token.EQL:
			return Ident(ta, tb)
		case token.NEQ:
			return Not(Ident(ta, tb))
		case token.LAND, token.AND:
			return And(ta, tb)
		case token.LOR, token.OR:
			return Or(ta, tb)
		}
		panic(unsupported("bool op " + op.String()))
	}
	if ta.Sort.K == KFP {
		switch op {
		case token.EQL:
			return Term{app("fp.eq", ta, tb), BoolSort()}
		case token.NEQ:
			return Not(Term{app("fp.eq", ta, tb), BoolSort()})
		case token.LSS:
			return Lt(ta, tb)
		case token.LEQ:
			return Le(ta, tb)
		case token.GTR:
			return Lt(tb, ta)
		case token.GEQ:
			return Le(tb, ta)
		case token.ADD:
			return Term{"(fp.add RNE " + ta.S + " " + tb.S + ")", ta.Sort}
		case token.SUB:
			return Term{"(fp.sub RNE " + ta.S + " " + tb.S + ")", ta.Sort}
		case token.MUL:
			if r.C != nil && r.C.Opts["fp"] == "exact" {
				return Term{"(fp.mul RNE " + ta.S + " " + tb.S + ")", ta.Sort}
			}
			return Term{fmt.Sprintf("(ufpmul%d %s %s)", ta.Sort.W, ta.S, tb.S), ta.Sort}
		case token.QUO:
			if r.C != nil && r.C.Opts["fp"] == "exact" {
				return Term{"(fp.div RNE " + ta.S + " " + tb.S + ")", ta.Sort}
			}
			return Term{fmt.Sprintf("(ufpdiv%d %s %s)", ta.Sort.W, ta.S, tb.S), ta.Sort}
		}
		panic(unsupported("float op " + op.String()))
	}
	if ta.Sort.K == KInt {
		switch op {
		case token.ADD, token.SUB, token.MUL, token.SHL:
			var res Term
			switch op {
			case token.ADD:
				res = Add(ta, tb)
			case token.SUB:
				res = Sub(ta, tb)
			case token.MUL:
				res = Mul(ta, tb)
			case token.SHL:
				if tb.Sort.Signed {
					r.implicitCheck(st, ins, "shift", Le(zeroLike(tb), tb))
				}
				res = Shl(ta, tb)
			}
			res = st.name("ar", res)
			// machine arithmetic treated as mathematical only under this obligation
			r.addGoal(st, fmt.Sprintf("safe.overflow#%d", r.arithSite(ins)), r.posOf(ins), InTypeRange(res), nil)
			st.assume(InTypeRange(res), "no overflow (proved)")
			return res
		}
	}
	switch op {
	case token.ADD:
		return Add(ta, tb)
	case token.SUB:
		return Sub(ta, tb)
	case token.MUL:
		return Mul(ta, tb)
	case token.QUO, token.REM:
		r.implicitCheck(st, ins, "div", Not(Eq(tb, zeroLike(tb))))
		if op == token.QUO {
			return Div(ta, tb)
		}
		return Rem(ta, tb)
	case token.AND:
		return bvBin("bvand", ta, tb)
	case token.OR:
		return bvBin("bvor", ta, tb)
	case token.XOR:
		return bvBin("bvxor", ta, tb)
	case token.AND_NOT:
		return bvBin("bvand", ta, Term{"(bvnot " + tb.S + ")", tb.Sort})
	case token.SHL, token.SHR:
		if tb.Sort.Signed {
			r.implicitCheck(st, ins, "shift", Le(zeroLike(tb), tb))
		}
		if op == token.SHL {
			return Shl(ta, tb)
		}
		return Shr(ta, tb)
	case token.EQL:
		return Eq(ta, tb)
	case token.NEQ:
		return Not(Eq(ta, tb))
	case token.LSS:
		return Lt(ta, tb)
	case token.LEQ:
		return Le(ta, tb)
	case token.GTR:
		return Lt(tb, ta)
	case token.GEQ:
		return Le(tb, ta)
	}
	panic(unsupported("binop " + op.String()))
}

func (r *FnRun) arithSite(ins ssa.Instruction) int {
	if n, ok := r.siteIdx[ins]; ok && n > 0 {
		return n
	}
	r.siteCnt["arith"]++
	r.siteIdx[ins] = r.siteCnt["arith"]
	return r.siteIdx[ins]
}

func (r *FnRun) complexOp(op token.Token, a, b *StructVal) Val {
	re := Term{app("fp.eq", a.F[0].(Term), b.F[0].(Term)), BoolSort()}
	im := Term{app("fp.eq", a.F[1].(Term), b.F[1].(Term)), BoolSort()}
	switch op {
	case token.EQL:
		return And(re, im)
	case token.NEQ:
		return Not(And(re, im))
	}
	panic(unsupported("complex op " + op.String()))
}

func (r *FnRun) stringCompare(st *State, op token.Token, a, b *StructVal) Val {
	la, lb := a.F[1].(Term), b.F[1].(Term)
	// only the cases decidable without sequence reasoning
	if v, ok := constVal(lb); ok && v.Sign() == 0 {
		switch op {
		case token.EQL:
			return Eq(la, lb)
		case token.NEQ:
			return Not(Eq(la, lb))
		}
	}
	if v, ok := constVal(la); ok && v.Sign() == 0 {
		switch op {
		case token.EQL:
			return Eq(la, lb)
		case token.NEQ:
			return Not(Eq(la, lb))
		}
	}
	// general: strings are compared through an (uninterpreted) rank of their
	// contents: equal contents <=> equal rank, lexicographic order = rank order
	ra, rb := strRank(st.memArr("M8"), a), strRank(st.memArr("M8"), b)
	switch op {
	case token.EQL:
		return Ident(ra, rb)
	case token.NEQ:
		return Not(Ident(ra, rb))
	case token.LSS:
		return Lt(ra, rb)
	case token.LEQ:
		return Le(ra, rb)
	case token.GTR:
		return Lt(rb, ra)
	case token.GEQ:
		return Le(rb, ra)
	}
	panic(unsupported("string operator " + op.String()))
}

// strRank: uninterpreted order-embedding of string contents.
// strRank: an order-embedding of the string's contents. Go strings are
// immutable: the contents of the string value (data, len) do not depend on
// what the heap looks like now, so the rank is taken over a fixed "string
// memory" and not over the current byte memory (a call that havocs the heap
// does not change what an existing string says).
func strRank(m8 Term, s *StructVal) Term {
	d, l := s.F[0].(Term), s.F[1].(Term)
	name, imm := "strrank", Term{"M8imm", m8.Sort}
	if d.Sort.K == KInt {
		name, imm = "strrank_i", Term{"M8imm_i", m8.Sort}
	}
	return Term{app(name, imm, d, l), Sort{K: KInt, W: 64, Signed: true}}
}

func (r *FnRun) unop(st *State, x *ssa.UnOp) Val {
	v := r.operand(st, x.X)
	switch x.Op {
	case token.MUL: // load
		return r.load(st, x, v, x.Type())
	case token.NOT:
		return Not(v.(Term))
	case token.SUB:
		t := v.(Term)
		if t.Sort.K == KFP {
			return Term{"(fp.neg " + t.S + ")", t.Sort}
		}
		res := Sub(zeroLike(t), t)
		if t.Sort.K == KInt {
			r.addGoal(st, fmt.Sprintf("safe.overflow#%d", r.arithSite(x)), r.posOf(x), InTypeRange(res), nil)
			st.assume(InTypeRange(res), "no overflow (proved)")
		}
		return res
	case token.XOR:
		t := v.(Term)
		if t.Sort.K == KInt {
			panic(unsupported("bitwise complement in int mode"))
		}
		return Term{"(bvnot " + t.S + ")", t.Sort}
	}
	panic(unsupported("unop " + x.Op.String()))
}

func (r *FnRun) convert(st *State, v Val, from, to types.Type) Val {
	if fp, ok := v.(*FieldPtr); ok {
		r.E.Notes["a field address escapes to a raw pointer in "+r.FnName+" (accesses through it use the raw memory view)"] = true
		v = fp.Addr
	}
	fs, fok := r.E.scalarSort(from)
	ts, tok := r.E.scalarSort(to)
	if fok && tok {
		t := v.(Term)
		switch {
		case isNum(fs) && isNum(ts):
			return Resize(t, ts.W, ts.Signed)
		case fs.K == KBV && ts.K == KFP:
			op := "to_fp_unsigned"
			if fs.Signed {
				op = "to_fp"
			}
			eb, sb := 11, 53
			if ts.W == 32 {
				eb, sb = 8, 24
			}
			return Term{fmt.Sprintf("((_ %s %d %d) RNE %s)", op, eb, sb, t.S), ts}
		case fs.K == KFP && ts.K == KFP:
			eb, sb := 11, 53
			if ts.W == 32 {
				eb, sb = 8, 24
			}
			if fs.W == ts.W {
				return t
			}
			return Term{fmt.Sprintf("((_ to_fp %d %d) RNE %s)", eb, sb, t.S), ts}
		case fs.K == KFP && ts.K == KBV:
			op := "fp.to_ubv"
			if ts.Signed {
				op = "fp.to_sbv"
			}
			return Term{fmt.Sprintf("((_ %s %d) RTZ %s)", op, ts.W, t.S), ts}
		}
	}
	// string <-> []byte / []rune: library-level conversions; the result is a fresh
	// value whose length is bounded by the source (contents not modelled)
	isStr := func(t types.Type) bool {
		b, ok := t.Underlying().(*types.Basic)
		return ok && b.Info()&types.IsString != 0
	}
	_, toSlice := to.Underlying().(*types.Slice)
	_, fromSlice := from.Underlying().(*types.Slice)
	if (isStr(from) && toSlice) || (fromSlice && isStr(to)) {
		r.E.Trusted["go conversions string<->[]byte/[]rune: fresh result, 0 <= len(result) <= 4*len(source)+4 (contents not modelled)"] = true
		res := r.freshVal(st, "conv", to)
		r.assumeTypeInv(st, res, to)
		src := v.(*StructVal)
		rl := res.(*StructVal).F[1].(Term)
		st.assume(Le(rl, Add(Mul(src.F[1].(Term), BVInt(4, 64, true)), BVInt(4, 64, true))), "length of converted value")
		if toSlice {
			st.assume(Eq(res.(*StructVal).F[2].(Term), rl), "cap == len for a converted slice")
		}
		return res
	}
	panic(unsupported(fmt.Sprintf("conversion %s -> %s", from, to)))
}

// ---------------------------------------------------------------------------
// memory

func (r *FnRun) allocFresh(st *State, hint string, elem types.Type) Val {
	size := r.E.Sizes.Sizeof(elem)
	addr := st.declare(r.freshName("new_"+hint), BV(PtrW, false))
	r.registerFresh(st, addr, BVInt(size, 64, false))
	st.assume(Not(Eq(addr, BVInt(0, 64, false))), "new is non-nil")
	r.storeAt(st, addr, elem, r.zeroVal(elem), true)
	return addr
}

// registerFresh assumes [addr,addr+size) valid and disjoint from every region
// known so far.
func (r *FnRun) registerFresh(st *State, addr, size Term) {
	for _, rg := range st.regions {
		st.assume(Implies(rg.Cond, disjointTerm(addr, size, rg.Base, rg.Size)), "fresh region disjoint")
	}
	r.assumeValid(st, addr, size, true)
}

func (r *FnRun) fieldAddr(st *State, x *ssa.FieldAddr) Val {
	base := r.operand(st, x.X)
	if lp, ok := base.(*LocalPtr); ok {
		return &LocalPtr{A: lp.A, Path: append(append([]int{}, lp.Path...), x.Field)}
	}
	t := base.(Term)
	elemT := x.X.Type().Underlying().(*types.Pointer).Elem()
	stt := elemT.Underlying().(*types.Struct)
	if !derivedAddr(x.X) {
		r.implicitCheck(st, x, "nil", Not(Eq(t, BVInt(0, PtrW, false))))
	}
	off := r.fieldOffset(stt, x.Field)
	addr := Add(t, BVInt(off, PtrW, false))
	if _, ok := r.fieldComps("", stt, x.Field); !ok {
		return addr // nested struct / array: a plain typed pointer
	}
	return &FieldPtr{Base: t, S: stt, Key: structKey(elemT), Idx: x.Field, Addr: addr}
}

func (r *FnRun) fieldOffset(stt *types.Struct, idx int) int64 {
	var fields []*types.Var
	for i := 0; i < stt.NumFields(); i++ {
		fields = append(fields, stt.Field(i))
	}
	return r.E.Sizes.Offsetsof(fields)[idx]
}

func (r *FnRun) cellGet(st *State, lp *LocalPtr) Val {
	v, ok := st.cells[lp.A]
	if !ok {
		panic(unsupported("cell " + lp.A.Name() + " not initialised on this path"))
	}
	for _, i := range lp.Path {
		switch x := v.(type) {
		case *StructVal:
			v = x.F[i]
		case *ArrayVal:
			v = x.E[i]
		default:
			panic(unsupported("cell path into scalar"))
		}
	}
	return v
}

func (r *FnRun) cellSet(st *State, lp *LocalPtr, nv Val) {
	if len(lp.Path) == 0 {
		st.cells[lp.A] = cloneVal(nv)
		return
	}
	root := cloneVal(st.cells[lp.A])
	st.cells[lp.A] = root
	v := root
	for k, i := range lp.Path {
		last := k == len(lp.Path)-1
		switch x := v.(type) {
		case *StructVal:
			if last {
				x.F[i] = cloneVal(nv)
			} else {
				v = x.F[i]
			}
		case *ArrayVal:
			if last {
				x.E[i] = cloneVal(nv)
			} else {
				v = x.E[i]
			}
		default:
			panic(unsupported("cell path into scalar"))
		}
	}
}

func (r *FnRun) load(st *State, ins ssa.Instruction, p Val, t types.Type) Val {
	if lp, ok := p.(*LocalPtr); ok {
		return cloneVal(r.cellGet(st, lp))
	}
	if fp, ok := p.(*FieldPtr); ok {
		r.checkFieldAccess(st, ins, fp, "read")
		return r.loadField(st, fp)
	}
	addr, ok := p.(Term)
	if !ok {
		panic(unsupported(fmt.Sprintf("load through %T", p)))
	}
	if u, ok := ins.(*ssa.UnOp); !ok || !derivedAddr(u.X) {
		r.implicitCheck(st, ins, "nil", Not(Eq(addr, BVInt(0, PtrW, false))))
	}
	r.checkLockedAccess(st, ins, addr, t, "read")
	return r.loadAt(st, addr, t)
}

// derivedAddr: the address was computed by FieldAddr/IndexAddr, where the nil
// check (resp. bounds check) of the base already happened.
func derivedAddr(v ssa.Value) bool {
	switch v.(type) {
	case *ssa.FieldAddr, *ssa.IndexAddr:
		return true
	}
	return false
}

func fpFromBits(bits Term) Term {
	if bits.Sort.W == 32 {
		return Term{"((_ to_fp 8 24) " + bits.S + ")", FPSort(32)}
	}
	return Term{"((_ to_fp 11 53) " + bits.S + ")", FPSort(64)}
}

func (r *FnRun) loadAt(st *State, addr Term, t types.Type) Val {
	if _, ok := r.E.scalarSort(t); ok {
		m, s := r.E.memFor(t)
		raw := Select(st.memArr(m), addr)
		switch s.K {
		case KBool:
			return Not(Eq(raw, BVInt(0, 8, false)))
		case KBV:
			return Term{raw.S, s}
		case KInt:
			return r.loadWord(st, addr, s.Signed)
		case KFP:
			// floats live in memory as their IEEE bit patterns
			return fpFromBits(Term{raw.S, Sort{K: KBV, W: s.W}})
		default:
			return raw
		}
	}
	switch u := t.Underlying().(type) {
	case *types.Basic:
		if u.Info()&types.IsComplex != 0 {
			ft := types.Typ[types.Float64]
			w := int64(8)
			if u.Kind() == types.Complex64 {
				ft, w = types.Typ[types.Float32], 4
			}
			return &StructVal{N: []string{"re", "im"}, F: []Val{r.loadAt(st, addr, ft), r.loadAt(st, Add(addr, BVInt(w, 64, false)), ft)}}
		}
		if u.Info()&types.IsString != 0 {
			return &StructVal{N: stringFields, F: []Val{
				r.loadWord(st, addr, false),
				r.loadWord(st, Add(addr, BVInt(8, 64, false)), true)}}
		}
	case *types.Slice:
		return &StructVal{T: t, N: sliceFields, F: []Val{
			r.loadWord(st, addr, false),
			r.loadWord(st, Add(addr, BVInt(8, 64, false)), true),
			r.loadWord(st, Add(addr, BVInt(16, 64, false)), true)}}
	case *types.Struct:
		sv := &StructVal{T: t}
		key := structKey(t)
		for i := 0; i < u.NumFields(); i++ {
			sv.N = append(sv.N, u.Field(i).Name())
			fa := Add(addr, BVInt(r.fieldOffset(u, i), 64, false))
			if _, ok := r.fieldComps(key, u, i); ok {
				sv.F = append(sv.F, r.loadField(st, &FieldPtr{Base: addr, S: u, Key: key, Idx: i, Addr: fa}))
			} else {
				sv.F = append(sv.F, r.loadAt(st, fa, u.Field(i).Type()))
			}
		}
		return sv
	case *types.Array:
		if u.Len() <= 64 {
			av := &ArrayVal{T: u}
			es := r.E.Sizes.Sizeof(u.Elem())
			for i := int64(0); i < u.Len(); i++ {
				av.E = append(av.E, r.loadAt(st, Add(addr, BVInt(i*es, 64, false)), u.Elem()))
			}
			return av
		}
	case *types.Interface:
		return &StructVal{T: t, N: []string{"itab", "data"}, F: []Val{
			r.loadWord(st, addr, false),
			r.loadWord(st, Add(addr, BVInt(8, 64, false)), false)}}
	}
	panic(unsupported("load of type " + t.String()))
}

// loadWord reads a 64-bit word. In int mode the memory cell holds a
// mathematical integer constrained to the range of the type it is read at.
func (r *FnRun) loadWord(st *State, addr Term, signed bool) Term {
	raw := Select(st.memArr("M64"), addr)
	t := Term{raw.S, BV(64, signed)}
	if IntMode && !strings.Contains(raw.S, "!") {
		if st.ghost["range:"+t.S+fmt.Sprint(signed)] == nil {
			st.ghost["range:"+t.S+fmt.Sprint(signed)] = true
			st.assume(InTypeRange(t), "word in memory is within its type's range")
		}
	}
	return t
}

func (r *FnRun) store(st *State, ins ssa.Instruction, p Val, v Val, t types.Type) {
	if lp, ok := p.(*LocalPtr); ok {
		r.cellSet(st, lp, v)
		return
	}
	if fp, ok := p.(*FieldPtr); ok {
		r.checkFieldAccess(st, ins, fp, "write")
		r.storeField(st, fp, v, false)
		return
	}
	addr, ok := p.(Term)
	if !ok {
		panic(unsupported(fmt.Sprintf("store through %T", p)))
	}
	if u, ok := ins.(*ssa.Store); !ok || !derivedAddr(u.Addr) {
		r.implicitCheck(st, ins, "nil", Not(Eq(addr, BVInt(0, PtrW, false))))
	}
	r.checkLockedAccess(st, ins, addr, t, "write")
	r.storeAt(st, addr, t, v, false)
}

func (r *FnRun) storeAt(st *State, addr Term, t types.Type, v Val, init bool) {
	if !init {
		st.writes++
	}
	if _, ok := r.E.scalarSort(t); ok {
		m, s := r.E.memFor(t)
		tv, ok := v.(Term)
		if !ok {
			panic(unsupported(fmt.Sprintf("store of %T as scalar", v)))
		}
		if s.K == KBool {
			tv = Ite(tv, BVInt(1, 8, false), BVInt(0, 8, false))
		}
		if s.K == KFP {
			bits := st.declare(r.freshName("fbits"), Sort{K: KBV, W: s.W})
			st.assume(Ident(fpFromBits(bits), tv), "bit pattern of the stored float")
			tv = bits
		}
		st.mem[m] = Store(st.memArr(m), addr, Term{tv.S, *memSort(m).Elem})
		if len(st.mem[m].S) > 200 {
			arr := st.declare(r.freshName(m), memSort(m))
			st.log = append(st.log, LogItem{Kind: LAssume, T: Ident(arr, st.mem[m]), Note: "def"})
			st.mem[m] = arr
		}
		return
	}
	switch x := v.(type) {
	case *StructVal:
		switch u := t.Underlying().(type) {
		case *types.Struct:
			key := structKey(t)
			for i := range x.F {
				fa := Add(addr, BVInt(r.fieldOffset(u, i), 64, false))
				if _, ok := r.fieldComps(key, u, i); ok {
					r.storeField(st, &FieldPtr{Base: addr, S: u, Key: key, Idx: i, Addr: fa}, x.F[i], init)
				} else {
					r.storeAt(st, fa, u.Field(i).Type(), x.F[i], init)
				}
			}
			return
		default:
			// string / slice / interface headers: consecutive words
			for i := range x.F {
				f := x.F[i].(Term)
				wt := types.Typ[types.Uintptr]
				r.storeAt(st, Add(addr, BVInt(int64(8*i), 64, false)), wt, Term{f.S, BV(64, false)}, init)
			}
			return
		}
	case *ArrayVal:
		es := r.E.Sizes.Sizeof(x.T.Elem())
		for i, e := range x.E {
			r.storeAt(st, Add(addr, BVInt(int64(i)*es, 64, false)), x.T.Elem(), e, init)
		}
		return
	}
	if iv, ok := v.(*IfaceVal); ok {
		r.storeAt(st, addr, t, r.ifaceWords(st, iv), init)
		return
	}
	panic(unsupported(fmt.Sprintf("store of %T", v)))
}

func (r *FnRun) indexAddr(st *State, x *ssa.IndexAddr) Val {
	base := r.operand(st, x.X)
	idx := r.operand(st, x.Index).(Term)
	idx64 := Resize(idx, 64, idx.Sort.Signed)
	switch bt := x.X.Type().Underlying().(type) {
	case *types.Slice:
		sv := base.(*StructVal)
		ln := sv.F[1].(Term)
		r.implicitCheck(st, x, "index", inRange(idx64, ln))
		es := r.E.Sizes.Sizeof(bt.Elem())
		return Add(sv.F[0].(Term), Mul(Term{idx64.S, BV(64, false)}, BVInt(es, 64, false)))
	case *types.Pointer:
		at := bt.Elem().Underlying().(*types.Array)
		r.implicitCheck(st, x, "index", inRange(idx64, BVInt(at.Len(), 64, true)))
		if lp, ok := base.(*LocalPtr); ok {
			if c, ok := constVal(idx64); ok {
				return &LocalPtr{A: lp.A, Path: append(append([]int{}, lp.Path...), int(c.Int64()))}
			}
			panic(unsupported("symbolic index into non-escaping local array"))
		}
		es := r.E.Sizes.Sizeof(at.Elem())
		return Add(base.(Term), Mul(Term{idx64.S, BV(64, false)}, BVInt(es, 64, false)))
	}
	panic(unsupported("IndexAddr on " + x.X.Type().String()))
}

// inRange: 0 <= idx < n for signed or unsigned idx (already 64 bits wide).
func inRange(idx, n Term) Term {
	if idx.Sort.Signed {
		return And(Le(BVInt(0, 64, true), idx), Lt(idx, Term{n.S, BV(64, true)}))
	}
	return Lt(idx, Term{n.S, BV(64, false)})
}

func (r *FnRun) index(st *State, x *ssa.Index) Val {
	base := r.operand(st, x.X)
	idx := r.operand(st, x.Index).(Term)
	switch b := base.(type) {
	case *StructVal:
		if bt, ok := x.X.Type().Underlying().(*types.Basic); ok && bt.Info()&types.IsString != 0 {
			idx64 := Resize(idx, 64, idx.Sort.Signed)
			r.implicitCheck(st, x, "index", inRange(idx64, b.F[1].(Term)))
			return Select(st.memArr("M8"), Add(b.F[0].(Term), Term{idx64.S, BV(64, false)}))
		}
	case *ArrayVal:
		idx64 := Resize(idx, 64, idx.Sort.Signed)
		r.implicitCheck(st, x, "index", inRange(idx64, BVInt(int64(len(b.E)), 64, true)))
		if c, ok := constVal(idx64); ok {
			return b.E[c.Int64()]
		}
		// ite chain
		res := b.E[len(b.E)-1]
		for i := len(b.E) - 2; i >= 0; i-- {
			res = Ite(Eq(idx64, BVInt(int64(i), 64, idx64.Sort.Signed)), b.E[i].(Term), res.(Term))
		}
		return res
	}
	panic(unsupported("Index on " + x.X.Type().String()))
}

func (r *FnRun) lookup(st *State, x *ssa.Lookup) Val {
	if _, ok := x.X.Type().Underlying().(*types.Map); ok {
		return r.mapLookup(st, x)
	}
	sv := r.operand(st, x.X).(*StructVal)
	idx := r.operand(st, x.Index).(Term)
	idx64 := Resize(idx, 64, idx.Sort.Signed)
	r.implicitCheck(st, x, "index", inRange(idx64, sv.F[1].(Term)))
	return Select(st.memArr("M8"), Add(sv.F[0].(Term), Term{idx64.S, BV(64, false)}))
}

func (r *FnRun) slice(st *State, x *ssa.Slice) Val {
	base := r.operand(st, x.X)
	var data, ln, cp Term
	var es int64 = 1
	isString := false
	switch bt := x.X.Type().Underlying().(type) {
	case *types.Basic:
		sv := base.(*StructVal)
		data, ln = sv.F[0].(Term), sv.F[1].(Term)
		cp = ln
		isString = true
	case *types.Slice:
		sv := base.(*StructVal)
		data, ln, cp = sv.F[0].(Term), sv.F[1].(Term), sv.F[2].(Term)
		es = r.E.Sizes.Sizeof(bt.Elem())
	case *types.Pointer:
		at := bt.Elem().Underlying().(*types.Array)
		if _, ok := base.(*LocalPtr); ok {
			panic(unsupported("slicing a non-escaping local array"))
		}
		data = base.(Term)
		ln = BVInt(at.Len(), 64, true)
		cp = ln
		es = r.E.Sizes.Sizeof(at.Elem())
	default:
		panic(unsupported("Slice on " + x.X.Type().String()))
	}
	get := func(v ssa.Value, def Term) Term {
		if v == nil {
			return def
		}
		t := r.operand(st, v).(Term)
		return Resize(t, 64, true) // indices are int (or constants)
	}
	zero := BVInt(0, 64, true)
	lo := get(x.Low, zero)
	hi := get(x.High, ln)
	mx := get(x.Max, cp)
	ok := And(Le(zero, lo), Le(lo, hi), Le(hi, mx), Le(mx, cp))
	r.implicitCheck(st, x, "slice", ok)
	nd := Add(data, Mul(Term{lo.S, BV(64, false)}, BVInt(es, 64, false)))
	if isString {
		return &StructVal{N: stringFields, F: []Val{st.name("sdata", nd), st.name("slen", Sub(hi, lo))}}
	}
	return &StructVal{T: x.Type(), N: sliceFields, F: []Val{st.name("sdata", nd), st.name("slen", Sub(hi, lo)), st.name("scap", Sub(mx, lo))}}
}

func (r *FnRun) makeSlice(st *State, x *ssa.MakeSlice) Val {
	ln := Resize(r.operand(st, x.Len).(Term), 64, true)
	cp := Resize(r.operand(st, x.Cap).(Term), 64, true)
	et := x.Type().Underlying().(*types.Slice).Elem()
	es := r.E.Sizes.Sizeof(et)
	lim := BVInt((1<<46)/maxI64(es, 1), 64, true)
	r.implicitCheck(st, x, "makeslice", And(Le(BVInt(0, 64, true), ln), Le(ln, cp), Lt(cp, lim)))
	addr := st.declare(r.freshName("mk"), BV(PtrW, false))
	size := Mul(Term{cp.S, BV(64, false)}, BVInt(es, 64, false))
	r.registerFresh(st, addr, size)
	st.assume(Not(Eq(addr, BVInt(0, 64, false))), "make result is non-nil")
	// zeroed contents
	if s, ok := r.E.scalarSort(et); ok {
		m, _ := r.E.memFor(et)
		k := Term{"k!z", BV(64, false)}
		body := Implies(Lt(k, Term{cp.S, BV(64, false)}),
			Ident(Select(st.memArr(m), Add(addr, Mul(k, BVInt(es, 64, false)))), zeroOfSort(*memSort(m).Elem)))
		_ = s
		st.assume(Forall([]Term{k}, body), "make zeroes")
	}
	r.E.Trusted["go:make (fresh zeroed block, non-nil)"] = true
	return &StructVal{T: x.Type(), N: sliceFields, F: []Val{addr, ln, cp}}
}

// finish generates the function-level obligations from the outcomes.
func (r *FnRun) finish() {
	c := r.C
	nret, npanic := 0, 0
	for _, o := range r.Outcomes {
		switch o.Kind {
		case "return":
			nret++
			env := r.env(o.St, r.Entry)
			if len(c.Locks) > 0 {
				env = r.lockEnv(o.St)
			}
			r.bindResults(env, o)
			i := 0
			for _, cl := range c.ByKind("ensures") {
				i++
				r.addGoal(o.St, clauseName("ensures", cl, i), "", env.evalBool(cl.E), cl.Props)
				if g := r.Goals[len(r.Goals)-1]; g.Goal.S != "true" {
					g.Replay = r.scalarReplay(cl, "ensures")
				}
			}
			i = 0
			for _, cl := range c.ByKind("panics_iff") {
				i++
				e0 := r.env(r.Entry, r.Entry)
				e0.nm = o.St
				r.addGoal(o.St, clauseName("panics_iff", cl, i)+"/returns-only-if-not", "", Not(e0.evalBool(cl.E)), cl.Props)
			}
			r.frameGoals(o)
			r.lockGoalsAtExit(o)
		case "panic":
			npanic++
			if !c.HasPanicSpec() {
				r.addGoal(o.St, "no-panic", o.Why, False, nil)
				r.Goals[len(r.Goals)-1].Replay = r.scalarReplay(&Clause{Label: "no-panic"}, "no-panic")
				continue
			}
			i := 0
			for _, cl := range c.ByKind("panics_iff") {
				i++
				e0 := r.env(r.Entry, r.Entry)
				e0.nm = o.St
				r.addGoal(o.St, clauseName("panics_iff", cl, i)+"/panics-only-if", o.Why, e0.evalBool(cl.E), cl.Props)
			}
			i = 0
			for _, cl := range c.ByKind("ensures_panic") {
				i++
				env := r.env(o.St, r.Entry)
				env.vars["panicmsg"] = r.panicMsg(o)
				r.addGoal(o.St, clauseName("ensures_panic", cl, i), o.Why, env.evalBool(cl.E), cl.Props)
			}
			// "at exactly that point": no caller-visible heap write before the panic
			if c.Opts["panic_writes"] != "allowed" {
				var ms *modSpec
				if len(c.Locks) > 0 {
					// state protected by a lock may be changed by other threads meanwhile
					ms = &modSpec{fields: map[string][]Term{}}
					env := r.lockEnv(o.St)
					env.nm = o.St
					for _, l := range c.Locks {
						r.addProtects(env, l, ms)
					}
				}
				for _, m := range allArrays(o.St) {
					if o.St.mem[m].S != r.arr(r.Entry, m).S {
						r.addGoal(o.St, "panic-before-writes", m, r.frameTerm(o.St, m, ms), nil)
					}
				}
			}
		}
	}
	// cover: panics_iff condition both ways
	for i, cl := range c.ByKind("panics_iff") {
		st := r.Entry.clone()
		e0 := r.env(st, st)
		e0.assuming = false
		p := e0.evalBool(cl.E)
		if p.S == "true" || p.S == "false" {
			continue // unconditional: nothing to cover
		}
		r.addGoalRaw(&Goal{Oblig: r.FnName + "/cover." + clauseName("panics_iff", cl, i+1) + ".true", Prefix: appendAssume(st.log, p), Goal: False, Expect: "sat"})
		r.addGoalRaw(&Goal{Oblig: r.FnName + "/cover." + clauseName("panics_iff", cl, i+1) + ".false", Prefix: appendAssume(st.log, Not(p)), Goal: False, Expect: "sat"})
	}
	if nret == 0 && len(c.ByKind("ensures")) > 0 && len(r.Unsupp) == 0 {
		r.Unsupp = append(r.Unsupp, "no returning path reached")
	}
	// an at_call clause that matched no call site decides nothing: say so
	for i, ac := range c.AtCall {
		if !r.E.AtCallHit[r.FnName+"#"+fmt.Sprint(i)] {
			r.E.Notes[fmt.Sprintf("at_call clause %d of %s names %s, which is not called on any explored path (the clause generated no obligation)", i+1, r.FnName, ac.Callee)] = true
		}
	}
	// canary: `ensures false` on a returning path must fail (some return is reachable)
	// (a sample of the returning paths, spread evenly over all of them: path enumeration
	// also yields infeasible paths, and the first few may all be of that kind)
	var rets []*Outcome
	for _, o := range r.Outcomes {
		if o.Kind == "return" {
			rets = append(rets, o)
		}
	}
	const maxCanary = 24
	stride := 1
	if len(rets) > maxCanary {
		stride = (len(rets) + maxCanary - 1) / maxCanary
	}
	for i := 0; i < len(rets); i += stride {
		o := rets[i]
		r.addGoalRaw(&Goal{Oblig: r.FnName + "/canary.return-reachable", Prefix: o.St.log[:len(o.St.log):len(o.St.log)], Goal: False, Expect: "sat-any"})
	}
}

func appendAssume(log []LogItem, t Term) []LogItem {
	out := append(log[:len(log):len(log)], LogItem{Kind: LAssume, T: t})
	return out
}

func (r *FnRun) panicMsg(o *Outcome) Val {
	// message text of errorString / string panics when statically known
	var find func(v Val) (string, bool)
	find = func(v Val) (string, bool) {
		switch x := v.(type) {
		case *IfaceVal:
			return find(x.V)
		case *StructVal:
			if len(x.F) == 2 && len(x.N) == 2 && x.N[0] == "data" {
				if a, ok := x.F[0].(Term); ok {
					if s, ok := o.St.ghost["strtext:"+a.S].(string); ok {
						return s, true
					}
				}
			}
		}
		return "", false
	}
	if s, ok := find(o.PanicV); ok {
		return &EStr{s}
	}
	return &EStr{"<unknown>"}
}

func (r *FnRun) bindResults(env *Env, o *Outcome) {
	res := r.Fn.Signature.Results()
	for i := 0; i < res.Len(); i++ {
		name := res.At(i).Name()
		if name != "" && name != "_" {
			env.vars[name] = o.Results[i]
			env.vtypes[name] = res.At(i).Type()
		}
		env.vars[fmt.Sprintf("result%d", i)] = o.Results[i]
		env.vtypes[fmt.Sprintf("result%d", i)] = res.At(i).Type()
	}
	if res.Len() == 1 {
		env.vars["result"] = o.Results[0]
		env.vtypes["result"] = res.At(0).Type()
	}
}

// identifiers of local variables visible in loop invariants
// DeclaredLocals lists the names a function body declares (:=, var, range), in
// source order, duplicates kept.
func DeclaredLocals(fn *ssa.Function) []string {
	var out []string
	syn := fn.Syntax()
	if syn == nil {
		return nil
	}
	add := func(e ast.Expr) {
		if id, ok := e.(*ast.Ident); ok && id.Name != "_" {
			out = append(out, id.Name)
		}
	}
	ast.Inspect(syn, func(n ast.Node) bool {
		switch x := n.(type) {
		case *ast.FuncLit:
			return n == syn // closures have their own contracts
		case *ast.AssignStmt:
			if x.Tok == token.DEFINE {
				for _, l := range x.Lhs {
					add(l)
				}
			}
		case *ast.ValueSpec:
			for _, nm := range x.Names {
				add(nm)
			}
		case *ast.RangeStmt:
			if x.Tok == token.DEFINE {
				if x.Key != nil {
					add(x.Key)
				}
				if x.Value != nil {
					add(x.Value)
				}
			}
		}
		return true
	})
	return out
}

func (r *FnRun) lookupLocal(st *State, at *ssa.BasicBlock, name string) (Val, types.Type, bool) {
	if v, t, ok := r.lookupLocal0(st, at, name); ok {
		return v, t, true
	}
	// renamed local: same position in the declaration order as at authoring time
	if r.C != nil && len(r.C.Locals) > 0 && r.Fn != nil {
		now := DeclaredLocals(r.Fn)
		for i, n := range r.C.Locals {
			if n == name && i < len(now) && now[i] != name {
				if v, t, ok := r.lookupLocal0(st, at, now[i]); ok {
					r.E.Notes["local variable "+name+" of the contract of "+r.FnName+" is called "+now[i]+" in the working tree (bound by declaration order)"] = true
					return v, t, true
				}
			}
		}
	}
	return nil, nil, false
}

func (r *FnRun) lookupLocal0(st *State, at *ssa.BasicBlock, name string) (Val, types.Type, bool) {
	// 1. phi at this block
	if at != nil {
		for b := at; b != nil; b = b.Idom() {
			start := len(b.Instrs) - 1
			for i := start; i >= 0; i-- {
				switch x := b.Instrs[i].(type) {
				case *ssa.Phi:
					if x.Comment == name {
						if v, ok := st.regs[x]; ok {
							return v, x.Type(), true
						}
					}
				case *ssa.DebugRef:
					if b == at {
						continue // uses inside the head itself come after the cut
					}
					if id, ok := x.Expr.(*ast.Ident); ok && id.Name == name && !x.IsAddr {
						if v, ok := st.regs[x.X]; ok {
							return v, x.X.Type(), true
						}
						if c, ok := x.X.(*ssa.Const); ok {
							return r.constVal(st, c), c.Type(), true
						}
					}
				}
			}
		}
	}
	// 2. local cell
	for a, v := range st.cells {
		if a.Comment == name {
			return v, a.Type().Underlying().(*types.Pointer).Elem(), true
		}
	}
	return nil, nil, false
}

// LemmaGoal turns a pure lemma (a closed formula over spec functions) into a goal.
func (e *Engine) LemmaGoal(lm *Lemma) (g *Goal, err error) {
	r := &FnRun{E: e, C: &FuncContract{Opts: map[string]string{}}, params: map[string]Val{}, ptypes: map[string]types.Type{}, lets: map[string]Val{},
		FnName: "lemma." + lm.Name}
	st := &State{regs: map[ssa.Value]Val{}, cells: map[*ssa.Alloc]Val{}, mem: map[string]Term{}, ghost: map[string]Val{}, run: r}
	for _, m := range MemNames {
		st.mem[m] = st.declare(m+"_0", memSort(m))
	}
	defer func() {
		if x := recover(); x != nil {
			if u, ok := x.(unsupportedErr); ok {
				err = fmt.Errorf("%s", u.why)
				return
			}
			panic(x)
		}
	}()
	env := r.env(st, st)
	if p, ok := lm.Pkg.(*types.Package); ok {
		env.pkg = p
	}
	t := env.evalBool(lm.E)
	return &Goal{Oblig: "lemma." + lm.Name, Fn: "lemma." + lm.Name, Prefix: st.log, Goal: t, Expect: "unsat"}, nil
}


// globalNeverWritten returns "" when no instruction of the package uses the
// global other than as the address operand of a load.
func globalNeverWritten(pkg *ssa.Package, g *ssa.Global) string {
	return globalWrittenOnlyIn(pkg, g, nil)
}

// globalWrittenOnlyIn: "" iff no instruction of the package outside `only` stores
// to g or takes its address for anything but a load.
func globalWrittenOnlyIn(pkg *ssa.Package, g *ssa.Global, only *ssa.Function) string {
	var fns []*ssa.Function
	var add func(f *ssa.Function)
	add = func(f *ssa.Function) {
		fns = append(fns, f)
		for _, a := range f.AnonFuncs {
			add(a)
		}
	}
	for _, m := range pkg.Members {
		switch x := m.(type) {
		case *ssa.Function:
			add(x)
		case *ssa.Type:
			for _, t := range []types.Type{x.Type(), types.NewPointer(x.Type())} {
				ms := pkg.Prog.MethodSets.MethodSet(t)
				for i := 0; i < ms.Len(); i++ {
					if mf := pkg.Prog.MethodValue(ms.At(i)); mf != nil && mf.Pkg == pkg {
						add(mf)
					}
				}
			}
		}
	}
	for _, f := range fns {
		if only != nil && f == only {
			continue
		}
		for _, b := range f.Blocks {
			for _, ins := range b.Instrs {
				for _, op := range ins.Operands(nil) {
					if *op != ssa.Value(g) {
						continue
					}
					if u, ok := ins.(*ssa.UnOp); ok && u.Op == token.MUL {
						continue
					}
					return fmt.Sprintf("used by %s in %s", ins, f.Name())
				}
			}
		}
	}
	return ""
}


// infeasible: with `opt prune yes` a branch whose path condition the solver
// proves unsatisfiable is not explored (used by contracts that specify a
// function only under a restricting precondition, e.g. the nil-map cases).
func (r *FnRun) infeasible(st *State) bool {
	if r.C == nil || r.C.Opts["prune"] != "yes" || ReplaySolver == nil {
		return false
	}
	// pruning is meant for contracts whose precondition cuts the function down to
	// a few blocks: a budget keeps a changed function from costing minutes
	root := r
	for root.parent != nil {
		root = root.parent
	}
	root.siteCnt["prune-queries"]++
	if root.siteCnt["prune-queries"] > 12 {
		panic(unsupported("more than 12 feasibility queries: the function is no longer cut down to a few blocks by the contract's precondition"))
	}
	g := &Goal{Run: r}
	q := RenderQuery(r.E.Specs.Prelude, st.log[:len(st.log):len(st.log)], False, lazyDecls(g))
	res := ReplaySolver.SolveQuick(r.FnName+"/prune", q)
	if res.Status != "unsat" && res.Status != "sat" {
		// undecided within the short limit (machine under load): the full portfolio decides
		res = ReplaySolver.Solve(r.FnName+"/prune", q)
	}
	return res.Status == "unsat"
}


// closurePrivate: the heap cell is only loaded/stored here and captured by
// closures that only load it.
func closurePrivate(a *ssa.Alloc) bool {
	refs := a.Referrers()
	if refs == nil {
		return false
	}
	captured := false
	for _, ins := range *refs {
		switch x := ins.(type) {
		case *ssa.Store:
			if x.Addr != ssa.Value(a) {
				return false // the address itself is stored somewhere
			}
		case *ssa.UnOp:
			if x.Op != token.MUL {
				return false
			}
		case *ssa.DebugRef:
		case *ssa.MakeClosure:
			captured = true
			fn, ok := x.Fn.(*ssa.Function)
			if !ok {
				return false
			}
			for i, b := range x.Bindings {
				if b != ssa.Value(a) {
					continue
				}
				frefs := fn.FreeVars[i].Referrers()
				if frefs == nil {
					return false
				}
				for _, fi := range *frefs {
					switch y := fi.(type) {
					case *ssa.UnOp:
						if y.Op != token.MUL {
							return false
						}
					case *ssa.DebugRef:
					default:
						return false
					}
				}
			}
		default:
			return false
		}
	}
	return captured
}
