package vc

import (
	"go/ast"
	"fmt"
	"go/types"
	"strings"

	"golang.org/x/tools/go/ssa"
)

// ---------------------------------------------------------------------------
// Calls: intrinsics (trusted models written in Go), contracts (modular), inline.

func (r *FnRun) call(st *State, b *ssa.BasicBlock, idx int, x *ssa.Call) (Val, bool) {
	cc := x.Common()
	r.checkEffect(st, x, cc)
	if cc.IsInvoke() {
		return r.invoke(st, x), false
	}
	var args []Val
	for _, a := range cc.Args {
		args = append(args, r.operand(st, a))
	}
	if bi, ok := cc.Value.(*ssa.Builtin); ok {
		return r.builtin(st, x, bi, args), false
	}
	callee := cc.StaticCallee()
	if callee == nil {
		return r.dynamicCall(st, x, args), false
	}
	name := fullName(callee)
	site := fmt.Sprintf("call.%s#%d", shortCallee(callee), r.siteIdx[x])
	if len(r.C.AtCall) > 0 && callee.Pkg != nil {
		qn := callee.Pkg.Pkg.Name() + "." + shortCallee(callee)
		for i, ac := range r.C.AtCall {
			if ac.Callee != qn {
				continue
			}
			for p := r; p != nil; p = p.parent {
				r.E.AtCallHit[p.FnName+"#"+fmt.Sprint(i)] = true
			}
			env := r.calleeEnv(st, r.Entry, callee, args)
			for p := r; p != nil; p = p.parent {
				for k, v := range p.params {
					if _, have := env.vars[k]; !have {
						env.vars[k] = v
						env.vtypes[k] = p.ptypes[k]
					}
				}
			}
			for k, v := range r.lets {
				if _, have := env.vars[k]; !have {
					env.vars[k] = v
				}
			}
			// source-level locals of the caller visible at the call (nearest definition that
			// dominates the call; parameters and the callee's parameter names take precedence)
			for b := x.Block(); b != nil; b = b.Idom() {
				seenCall := b != x.Block()
				for k := len(b.Instrs) - 1; k >= 0; k-- {
					ins := b.Instrs[k]
					if !seenCall {
						if ins == ssa.Instruction(x) {
							seenCall = true
						}
						continue
					}
					dr, ok := ins.(*ssa.DebugRef)
					if !ok || dr.IsAddr {
						continue
					}
					id, ok := dr.Expr.(*ast.Ident)
					if !ok {
						continue
					}
					if _, have := env.vars[id.Name]; have {
						continue
					}
					if v, ok := st.regs[dr.X]; ok {
						env.vars[id.Name] = v
						env.vtypes[id.Name] = dr.X.Type()
					} else if c, ok := dr.X.(*ssa.Const); ok {
						env.vars[id.Name] = r.constVal(st, c)
						env.vtypes[id.Name] = c.Type()
					}
				}
			}
			r.addGoal(st, fmt.Sprintf("at_call.%s#%d/%s", qn, r.siteIdx[x], clauseLabel(ac.C, i)), r.posOf(x), env.evalBool(ac.C.E), ac.C.Props)
		}
	}
	if in, ok := r.E.Intrinsics[name]; ok {
		if v, handled := in(r, st, x, args); handled {
			return v, false
		}
	}
	if lk, ok := lockOps[name]; ok {
		return r.lockOp(st, x, lk, args), false
	}
	for i, a := range args {
		if fp, ok := a.(*FieldPtr); ok {
			r.E.Notes["a field address is passed to "+shortCallee(callee)+" in "+r.FnName+" (the callee sees a raw address)"] = true
			args[i] = fp.Addr
		}
	}
	for _, n := range r.C.Inline {
		if n == callee.Name() || n == name {
			return r.inlineCall(st, b, idx, x, callee, args, site)
		}
	}
	if c, ok := r.E.Contracts[name]; ok && c.Opts["once"] == "yes" {
		// Once.Do(f): f has run (now or earlier). Everything f writes is havocked and,
		// for package-level map variables that f initialises with make, known non-nil.
		r.E.Trusted["contract: "+c.Key+" (pthread once: the initialiser has run before Do returns)"] = true
		// Two cases, told apart by a fresh boolean: the initialiser ran EARLIER (nothing
		// changes now) or it runs NOW (everything it may write is havocked; a map variable
		// that only the initialiser ever writes - checked over the package's SSA - was
		// still nil before).
		ranBefore := st.declare(r.freshName("once_ran_before"), BoolSort())
		if len(args) >= 2 {
			// the maps the initialiser creates: their contents must exist as heap
			// components BEFORE the call, so that the unchanged case relates them
			if fr, ok := args[1].(*FuncRef); ok {
				for _, b := range fr.Fn.Blocks {
					for _, ins := range b.Instrs {
						if mk, ok := ins.(*ssa.MakeMap); ok {
							ma := r.mapArrsOf(mk.Type())
							r.memArrS(st, ma.val, ArraySort(ma.ks, ma.vs))
							r.memArrS(st, ma.has, ArraySort(ma.ks, BoolSort()))
						}
					}
				}
			}
		}
		olds := map[string]Term{}
		for _, m := range allArrays(st) {
			olds[m] = r.arr(st, m)
		}
		preSt := st.clone()
		r.havocAll(st)
		for _, m := range allArrays(st) {
			old, ok := olds[m]
			if !ok {
				continue
			}
			nv := st.mem[m]
			mixed := st.declare(r.freshName(m+"_once"), nv.Sort)
			st.log = append(st.log, LogItem{Kind: LAssume, T: Ident(mixed, Ite(ranBefore, old, nv)), Note: "def"})
			st.mem[m] = mixed
		}
		if len(args) >= 2 {
			if fr, ok := args[1].(*FuncRef); ok {
				for _, b := range fr.Fn.Blocks {
					for _, ins := range b.Instrs {
						if sto, ok := ins.(*ssa.Store); ok {
							if g, ok := sto.Addr.(*ssa.Global); ok {
								if _, isMk := sto.Val.(*ssa.MakeMap); isMk {
									ga := r.globalAddr(st, g).(Term)
									mp := r.loadAt(st, ga, sto.Val.Type()).(Term)
									st.assume(Not(Eq(mp, BVInt(0, PtrW, false))), "initialised by "+fr.Fn.Name())
									if why := globalWrittenOnlyIn(fr.Fn.Pkg, g, fr.Fn); why == "" {
										before := r.loadAt(preSt, ga, sto.Val.Type()).(Term)
										st.assume(Or(ranBefore, Eq(before, BVInt(0, PtrW, false))), "only "+fr.Fn.Name()+" writes "+g.Name()+": nil until it has run")
										r.E.Notes["package-level map "+g.Name()+" is written only by "+fr.Fn.Name()+" (checked over the package's SSA on every run): nil before the Once initialiser has run"] = true
									}
								}
							}
						}
					}
				}
			}
		}
		return BVInt(0, 32, true), false
	}
	if c, ok := r.E.Contracts[name]; ok {
		var extra map[string]Val
		if cv, isC := r.operand(st, cc.Value).(*ClosureVal); isC {
			extra = map[string]Val{}
			for i, fv := range callee.FreeVars {
				b := cv.Bindings[i]
				if pt, isPtr := fv.Type().Underlying().(*types.Pointer); isPtr {
					// captured by reference: the contract sees the variable's current value
					switch bp := b.(type) {
					case *LocalPtr:
						b = r.cellGet(st, bp)
					case Term:
						b = r.loadAt(st, bp, pt.Elem())
					}
				}
				extra[fv.Name()] = b
			}
		}
		r.pendingFree = extra
		defer func() { r.pendingFree = nil }()
		return r.applyContract(st, x, callee, c, args, site)
	}
	// a small loop-free helper of the same package without a contract is expanded in
	// place (so that "extract a helper" refactorings keep their meaning for the proof)
	if r.autoInlinable(callee) {
		r.E.Notes["auto-inline: "+shortFn(callee)+" (same package, loop-free, no contract) expanded in "+r.FnName] = true
		return r.inlineCall(st, b, idx, x, callee, args, site)
	}
	// unknown callee: sound over-approximation — everything may change, result arbitrary
	r.E.Notes["havoc: call of "+name+" without contract (heap and result havocked)"] = true
	r.havocAll(st)
	st.addTrace("call %s havocs heap", name)
	if callee.Signature.Results().Len() == 0 {
		return nil, false
	}
	if callee.Signature.Results().Len() == 1 {
		return r.freshVal(st, "r_"+callee.Name(), callee.Signature.Results().At(0).Type()), false
	}
	return r.freshVal(st, "r_"+callee.Name(), callee.Signature.Results()), false
}

func shortCallee(fn *ssa.Function) string {
	n := fn.Name()
	if i := strings.Index(n, "["); i >= 0 {
		n = n[:i]
	}
	if recv := fn.Signature.Recv(); recv != nil {
		t := recv.Type()
		if p, ok := t.(*types.Pointer); ok {
			t = p.Elem()
		}
		if nt, ok := t.(*types.Named); ok {
			return nt.Obj().Name() + "." + n
		}
	}
	return n
}

func (r *FnRun) havocAll(st *State) {
	for _, m := range allArrays(st) {
		st.mem[m] = st.declare(r.freshName(m+"_h"), fieldArraySort(r.arrElemSort(m)))
	}
	st.epoch++
	st.writes++
}

func (r *FnRun) builtin(st *State, x *ssa.Call, bi *ssa.Builtin, args []Val) Val {
	switch bi.Name() {
	case "len", "cap":
		switch a := args[0].(type) {
		case *StructVal:
			if f, ok := a.Field(bi.Name()); ok {
				return f
			}
			if f, ok := a.Field("len"); ok {
				return f
			}
		case *ArrayVal:
			return BVInt(int64(len(a.E)), 64, true)
		}
		if pt, ok := x.Call.Args[0].Type().Underlying().(*types.Pointer); ok {
			if at, ok := pt.Elem().Underlying().(*types.Array); ok {
				return BVInt(at.Len(), 64, true)
			}
		}
	}
	if bi.Name() == "append" {
		return r.builtinAppend(st, x, args)
	}
	switch bi.Name() {
	case "real", "imag":
		if sv, ok := args[0].(*StructVal); ok && len(sv.F) == 2 {
			if bi.Name() == "real" {
				return sv.F[0]
			}
			return sv.F[1]
		}
	case "complex":
		return &StructVal{N: []string{"re", "im"}, F: []Val{args[0], args[1]}}
	}
	if bi.Name() == "delete" {
		// delete(m, k): the key is no longer present (no-op on a nil map: the stored
		// presence bit of the nil address is never read, lookups test m != nil first)
		ma := r.mapArrsOf(x.Call.Args[0].Type())
		m := args[0].(Term)
		k := args[1].(Term)
		r.mapStore(st, ma, m, Term{k.S, ma.ks}, zeroOfSort(ma.vs), False)
		return nil
	}
	panic(unsupported("builtin " + bi.Name()))
}

// calleeEnv binds the callee's parameter names to the argument values.
func (r *FnRun) calleeEnv(st, old *State, callee *ssa.Function, args []Val) *Env {
	env := &Env{r: r, st: st, old: old, vars: map[string]Val{}, vtypes: map[string]types.Type{}, nm: st}
	if callee.Pkg != nil {
		env.pkg = callee.Pkg.Pkg
	}
	for k, v := range r.pendingFree {
		env.vars[k] = v
	}
	sig := callee.Signature
	i := 0
	if recv := sig.Recv(); recv != nil {
		env.vars[recv.Name()] = args[0]
		env.vtypes[recv.Name()] = recv.Type()
		i = 1
	}
	for k := 0; k < sig.Params().Len(); k++ {
		p := sig.Params().At(k)
		env.vars[p.Name()] = args[i+k]
		env.vtypes[p.Name()] = p.Type()
	}
	for k := range args {
		env.vars[fmt.Sprintf("param%d", k)] = args[k]
	}
	if c := r.E.Contracts[fullName(callee)]; c != nil {
		for k := range args {
			if k < len(c.Params) && c.Params[k] != "_" {
				if _, taken := env.vars[c.Params[k]]; !taken {
					env.vars[c.Params[k]] = args[k]
					if k < len(callee.Params) {
						env.vtypes[c.Params[k]] = callee.Params[k].Type()
					}
				}
			}
		}
	}
	return env
}

func (r *FnRun) applyContract(st *State, x *ssa.Call, callee *ssa.Function, c *FuncContract, args []Val, site string) (Val, bool) {
	if c.Trusted {
		r.E.Trusted["contract: "+c.Key+" ("+shortPath(c.File)+")"] = true
	}
	pre := st.clone()
	env := r.calleeEnv(st, pre, callee, args)
	for _, cl := range c.ByKind("let") {
		env.vars[cl.Name] = env.eval(cl.E)
	}
	i := 0
	for _, cl := range c.ByKind("requires") {
		i++
		r.addGoal(st, site+"/"+clauseName("pre", cl, i), r.posOf(x), env.evalBool(cl.E), nil)
	}
	// panics
	for _, cl := range c.ByKind("panics_iff") {
		p := env.sub(pre).evalBool(cl.E)
		if p.S != "false" {
			s2 := st.clone()
			s2.assume(p, "callee panics: "+c.Key)
			s2.addTrace("%s panics", c.Key)
			r.Outcomes = append(r.Outcomes, &Outcome{Kind: "panic", St: s2, Why: "callee:" + shortCallee(callee)})
		}
		st.assume(Not(p), "callee returns: "+c.Key)
		if p.S == "true" {
			return nil, true
		}
	}
	if c.Opts["may_panic"] == "yes" {
		s2 := st.clone()
		s2.addTrace("%s may panic", c.Key)
		r.Outcomes = append(r.Outcomes, &Outcome{Kind: "panic", St: s2, Why: "callee:" + shortCallee(callee)})
	}
	if c.Opts["noreturn"] == "yes" {
		return nil, true
	}
	// frame
	r.havocModifies(st, env.sub(pre), c)
	// results
	var result Val
	res := callee.Signature.Results()
	post := r.calleeEnv(st, pre, callee, args)
	for k, v := range env.vars {
		if _, ok := post.vars[k]; !ok {
			post.vars[k] = v
		}
	}
	post.assuming = true
	switch res.Len() {
	case 0:
	case 1:
		result = r.freshVal(st, "r_"+callee.Name(), res.At(0).Type())
		post.vars["result"] = result
		post.vtypes["result"] = res.At(0).Type()
		post.vars["result0"] = result
		if n := res.At(0).Name(); n != "" && n != "_" {
			post.vars[n] = result
			post.vtypes[n] = res.At(0).Type()
		}
	default:
		tv := r.freshVal(st, "r_"+callee.Name(), res).(*TupleVal)
		result = tv
		for k := 0; k < res.Len(); k++ {
			post.vars[fmt.Sprintf("result%d", k)] = tv.E[k]
			post.vtypes[fmt.Sprintf("result%d", k)] = res.At(k).Type()
			if n := res.At(k).Name(); n != "" && n != "_" {
				post.vars[n] = tv.E[k]
				post.vtypes[n] = res.At(k).Type()
			}
		}
	}
	for _, cl := range c.ByKind("ensures") {
		st.assume(post.evalBool(cl.E), "ensures of "+c.Key)
	}
	return result, false
}

// modifies items: nothing | everything | bytes(p, n) | <pointer>.<field> | object(p)
type modRange struct {
	Lo, N Term // [Lo, Lo+N)
}

type modSpec struct {
	ranges []modRange        // raw memory (width arrays)
	byte8  []modRange        // raw memory written with byte stores only: the 8-bit view alone changes (bytes8(p, n))
	fields map[string][]Term // field array -> object addresses whose entry may change
	all    bool
	whole  map[string]bool // arrays that may change everywhere
}

func (r *FnRun) modSpecOf(env *Env, c *FuncContract) *modSpec {
	ms := &modSpec{fields: map[string][]Term{}}
	for _, m := range c.Modifies {
		if m == "nothing" {
			continue
		}
		if m == "everything" {
			ms.all = true
			return ms
		}
		if strings.HasPrefix(m, "array(") && strings.HasSuffix(m, ")") {
			if ms.whole == nil {
				ms.whole = map[string]bool{}
			}
			ms.whole[strings.TrimSpace(m[6:len(m)-1])] = true
			continue
		}
		ex, err := ParseExpr("f(" + m + ")")
		if err != nil {
			panic(unsupported("bad modifies clause: " + err.Error()))
		}
		for _, a := range ex.(*ECall).Args {
			if call, ok := a.(*ECall); ok {
				if id, ok := call.Fn.(*EIdent); ok && id.Name == "bytes" {
					ms.ranges = append(ms.ranges, modRange{env.evalTerm(call.Args[0]), env.evalTerm(call.Args[1])})
					continue
				}
				if id, ok := call.Fn.(*EIdent); ok && id.Name == "bytes8" {
					// only byte-wide stores: in the width-partitioned memory model the wider views keep
					// their values (the function's own frame obligations for M16/M32/M64 then demand that
					// they are unchanged EVERYWHERE)
					ms.byte8 = append(ms.byte8, modRange{env.evalTerm(call.Args[0]), env.evalTerm(call.Args[1])})
					continue
				}
				if id, ok := call.Fn.(*EIdent); ok && id.Name == "array" {
					// array(F!pkg_Type!field): the whole field array may change
					nm := strings.TrimSpace(m[strings.Index(m, "array(")+6:])
					nm = strings.TrimSuffix(strings.TrimSpace(nm), ")")
					if ms.whole == nil {
						ms.whole = map[string]bool{}
					}
					ms.whole[nm] = true
					continue
				}
				if id, ok := call.Fn.(*EIdent); ok && id.Name == "object" {
					v, t := env.evalT(call.Args[0])
					base, ok := v.(Term)
					if !ok || t == nil {
						env.fail("object(%s): not a typed pointer", call.Args[0])
					}
					pt, ok := t.Underlying().(*types.Pointer)
					if !ok {
						env.fail("object(%s): not a pointer", call.Args[0])
					}
					for _, ai := range r.objectArrays(pt.Elem(), base) {
						r.memArrS(env.st, ai.Arr, ai.Sort)
						ms.fields[ai.Arr] = append(ms.fields[ai.Arr], ai.Idx)
					}
					continue
				}
			}
			env.addrOf(a, ms)
		}
	}
	return ms
}

// addrOf resolves an lvalue expression p.f (p a pointer to struct) to the
// field arrays it occupies.
func (e *Env) addrOf(x Expr, ms *modSpec) {
	sel, ok := x.(*ESel)
	if !ok {
		e.fail("modifies item %s is not an lvalue", x)
	}
	v, t := e.evalT(sel.X)
	base, ok := v.(Term)
	if !ok || t == nil {
		e.fail("modifies item %s: base is not a typed pointer", x)
	}
	pt, ok := t.Underlying().(*types.Pointer)
	if !ok {
		e.fail("modifies item %s: base is not a pointer", x)
	}
	stt, ok := pt.Elem().Underlying().(*types.Struct)
	if !ok {
		e.fail("modifies item %s: not a struct", x)
	}
	for i := 0; i < stt.NumFields(); i++ {
		if stt.Field(i).Name() == sel.Name {
			comps, ok := e.r.fieldComps(structKey(pt.Elem()), stt, i)
			if !ok {
				off := BVInt(e.r.fieldOffset(stt, i), 64, false)
				if _, isS := stt.Field(i).Type().Underlying().(*types.Struct); isS {
					for _, ai := range e.r.objectArrays(stt.Field(i).Type(), Add(base, off)) {
						e.r.memArrS(e.st, ai.Arr, ai.Sort)
						ms.fields[ai.Arr] = append(ms.fields[ai.Arr], ai.Idx)
					}
					return
				}
				ms.ranges = append(ms.ranges, modRange{Add(base, off), BVInt(e.r.E.Sizes.Sizeof(stt.Field(i).Type()), 64, false)})
				return
			}
			for _, c := range comps {
				e.r.memArrS(e.st, c.Arr, c.Sort)
				ms.fields[c.Arr] = append(ms.fields[c.Arr], base)
			}
			return
		}
	}
	e.fail("modifies item %s: no such field", x)
}

func inRanges(a Term, ranges []modRange) Term {
	var ds []Term
	for _, rg := range ranges {
		lo := Term{rg.Lo.S, BV(64, false)}
		n := Term{rg.N.S, BV(64, false)}
		ds = append(ds, And(Le(lo, a), Lt(a, Add(lo, n))))
	}
	return Or(ds...)
}

// mayChange: address a of array m is covered by the modifies specification.
func (ms *modSpec) mayChange(m string, a Term) Term {
	if ms.whole[m] {
		return True
	}
	if strings.HasPrefix(m, "F!") {
		var ds []Term
		for _, b := range ms.fields[m] {
			ds = append(ds, Eq(a, b))
		}
		return Or(ds...)
	}
	if m == "M8" && len(ms.byte8) > 0 {
		return inRanges(a, append(append([]modRange{}, ms.ranges...), ms.byte8...))
	}
	return inRanges(a, ms.ranges)
}

func (ms *modSpec) touches(m string) bool {
	if ms.whole[m] {
		return true
	}
	if strings.HasPrefix(m, "F!") {
		return len(ms.fields[m]) > 0
	}
	return len(ms.ranges) > 0 || (m == "M8" && len(ms.byte8) > 0)
}

func (r *FnRun) havocModifies(st *State, env *Env, c *FuncContract) {
	ms := r.modSpecOf(env, c)
	if ms.all {
		r.havocAll(st)
		return
	}
	names := allArrays(st)
	changed := false
	for _, m := range names {
		if !ms.touches(m) {
			continue
		}
		changed = true
		old := r.arr(st, m)
		nw := st.declare(r.freshName(m+"_c"), fieldArraySort(r.arrElemSort(m)))
		a := Term{"a!f", BV(64, false)}
		st.assume(Forall([]Term{a}, Implies(Not(ms.mayChange(m, a)), Ident(Select(nw, a), Select(old, a)))), "frame of "+c.Key)
		st.mem[m] = nw
	}
	if changed {
		st.writes++
	}
}

// frameTerm: every address outside the modifies specification (and outside
// memory allocated during the call) holds its entry value.
func (r *FnRun) frameTerm(st *State, m string, ms *modSpec) Term {
	a := Term{"a!f", BV(64, false)}
	var ex []Term
	if ms != nil {
		ex = append(ex, ms.mayChange(m, a))
	}
	for _, rg := range st.regions {
		if rg.Fresh {
			ex = append(ex, And(rg.Cond, inRanges(a, []modRange{{rg.Base, rg.Size}})))
		}
	}
	return Forall([]Term{a}, Implies(Not(Or(ex...)), Ident(Select(r.arr(st, m), a), Select(r.arr(r.Entry, m), a))))
}

// entryFrame: every address inside a region that was valid at function entry
// and that the modifies clause does not cover holds its entry value.
func (r *FnRun) entryFrame(st *State, m string) Term {
	env := r.env(r.Entry, r.Entry)
	env.nm = st
	ms := r.modSpecOf(env, r.C)
	if ms.all {
		return True
	}
	a := Term{"a!f", BV(64, false)}
	var in []Term
	for _, rg := range r.Entry.regions {
		if !rg.Fresh {
			in = append(in, And(rg.Cond, inRanges(a, []modRange{{rg.Base, rg.Size}})))
		}
	}
	return Forall([]Term{a}, Implies(And(Or(in...), Not(ms.mayChange(m, a))), Ident(Select(r.arr(st, m), a), Select(r.arr(r.Entry, m), a))))
}

func (r *FnRun) frameGoals(o *Outcome) {
	env := r.env(r.Entry, r.Entry)
	env.nm = o.St
	ms := r.modSpecOf(env, r.C)
	if ms.all {
		return
	}
	// lock-protected state may also be changed by other threads
	if len(r.C.Locks) > 0 {
		lenv := r.lockEnv(o.St)
		lenv.nm = o.St
		for _, l := range r.C.Locks {
			r.addProtects(lenv, l, ms)
		}
	}
	for _, m := range allArrays(o.St) {
		if o.St.mem[m].S == r.arr(r.Entry, m).S {
			continue
		}
		if r.loopHavoc {
			// a loop havocked memory: the frame is stated over the memory that was
			// valid at entry (everything else was allocated by this invocation)
			r.addGoal(o.St, "frame."+m, "entry regions", r.entryFrame(o.St, m), nil)
			continue
		}
		r.addGoal(o.St, "frame."+m, "", r.frameTerm(o.St, m, ms), nil)
	}
}

// inlineCall executes the callee's body in place (same-package helper named
// in an `inline` clause). Recorded in the evidence.
func (r *FnRun) inlineCall(st *State, b *ssa.BasicBlock, idx int, x *ssa.Call, callee *ssa.Function, args []Val, site string) (Val, bool) {
	if r.depth > 4 {
		panic(unsupported("inline depth"))
	}
	if len(callee.Blocks) == 0 {
		panic(unsupported("inline of body-less function " + callee.Name()))
	}
	r.E.Notes["inline: "+shortFn(callee)+" expanded in "+r.FnName] = true
	cc := r.E.Contracts[fullName(callee)]
	if cc == nil {
		cc = &FuncContract{Key: callee.Name(), Opts: map[string]string{}}
	}
	sub := &FnRun{E: r.E, Fn: callee, C: &FuncContract{Key: cc.Key, Opts: map[string]string{"implicit_panics": r.C.Opts["implicit_panics"]}, Inline: cc.Inline, Clauses: loopClauses(cc),
		// caller-side obligations and the effect allow-list of the function under contract also cover the code expanded into it
		AtCall: r.C.AtCall, Effects: r.C.Effects},
		params: map[string]Val{}, ptypes: map[string]types.Type{}, lets: map[string]Val{},
		loops: map[*ssa.BasicBlock]*loopInfo{}, siteCnt: map[string]int{}, siteIdx: map[ssa.Instruction]int{},
		FnName: r.FnName + "/inl." + callee.Name(), parent: r, depth: r.depth + 1, implicit: r.implicit}
	sub.numberSites()
	sub.findLoops()
	s2 := st
	for i, p := range callee.Params {
		s2.regs[p] = args[i]
		sub.params[p.Name()] = args[i]
		sub.ptypes[p.Name()] = p.Type()
	}
	if len(callee.FreeVars) > 0 {
		// a closure expanded at its call site: its free variables are the bindings of the closure value
		cv, ok := r.operand(st, x.Call.Value).(*ClosureVal)
		if !ok || len(cv.Bindings) != len(callee.FreeVars) {
			panic(unsupported("inline of a closure whose bindings are not known at the call"))
		}
		for i, fv := range callee.FreeVars {
			s2.regs[fv] = cv.Bindings[i]
		}
	}
	sub.Entry = s2.clone()
	sub.execBlock(callee.Blocks[0], nil, s2)
	for _, g := range sub.Goals {
		r.Goals = append(r.Goals, g)
	}
	r.Unsupp = append(r.Unsupp, sub.Unsupp...)
	for _, o := range sub.Outcomes {
		switch o.Kind {
		case "panic":
			o.Why = "inlined:" + callee.Name() + ":" + o.Why
			r.Outcomes = append(r.Outcomes, o)
		case "return":
			var v Val
			switch len(o.Results) {
			case 0:
			case 1:
				v = o.Results[0]
			default:
				v = &TupleVal{E: o.Results}
			}
			if v != nil {
				o.St.regs[x] = v
			}
			o.St.run = r
			r.execFrom(b, idx+1, o.St)
		}
	}
	return nil, true
}

func loopClauses(c *FuncContract) []*Clause {
	var out []*Clause
	for _, cl := range c.Clauses {
		if cl.Kind == "invariant" || cl.Kind == "decreases" {
			out = append(out, cl)
		}
	}
	return out
}

// ---------------------------------------------------------------------------
// locks (monitor reasoning) — see lock.go

type lockOpKind int

const (
	lkLock lockOpKind = iota
	lkUnlock
	lkWait
	lkSignal
	lkInit
)

var lockOps = map[string]lockOpKind{}

// builtinAppend: trusted model of Go's append(a, b...) on slices
// (Go spec, "Appending to and copying slices"): the result has length
// len(a)+len(b), shares a's array iff the capacity suffices, otherwise is a
// fresh array; elements of a then of b.
func (r *FnRun) builtinAppend(st *State, x *ssa.Call, args []Val) Val {
	r.E.Trusted["go builtin append(a, b...): len = len(a)+len(b); in place iff len(a)+len(b) <= cap(a), else fresh array holding a's elements; b's elements follow (Go spec)"] = true
	a, ok1 := args[0].(*StructVal)
	b, ok2 := args[1].(*StructVal)
	if !ok1 || !ok2 {
		panic(unsupported("append on non-slice values"))
	}
	sl, ok := x.Type().Underlying().(*types.Slice)
	if !ok {
		panic(unsupported("append result type"))
	}
	es := r.E.Sizes.Sizeof(sl.Elem())
	li := &loopInfo{mems: map[string]bool{}}
	r.markMems(li, sl.Elem())
	la, ca := a.F[1].(Term), a.F[2].(Term)
	lb := b.F[1].(Term)
	if bs, isStr := x.Call.Args[1].Type().Underlying().(*types.Basic); isStr && bs.Info()&types.IsString != 0 {
		li.mems = map[string]bool{"M8": true} // append([]byte, string...)
	}
	n := st.name("app_n", Add(la, lb))
	fits := st.name("app_fits", Le(n, ca))
	p := st.declare(r.freshName("app_new"), BV(PtrW, false))
	nc := st.declare(r.freshName("app_cap"), BV(64, true))
	esz := BVInt(es, 64, false)
	u := func(t Term) Term { return Term{t.S, BV(64, false)} }
	// the new array exists only when the capacity did not suffice
	s2 := st
	for _, rg := range s2.regions {
		st.assume(Implies(And(Not(fits), rg.Cond), disjointTerm(p, Mul(u(nc), esz), rg.Base, rg.Size)), "append: new array is fresh")
	}
	st.assume(Implies(Not(fits), And(Le(n, nc), Lt(nc, BVInt(1<<40, 64, true)), validTerm(p, Mul(u(nc), esz)), Not(Eq(p, BVInt(0, 64, false))))), "append: new array")
	st.regions = append(st.regions, Region{Base: p, Size: Mul(u(nc), esz), Fresh: true, Cond: Not(fits)})
	data := st.name("app_data", Ite(fits, a.F[0].(Term), p))
	cp := st.name("app_c", Ite(fits, ca, nc))
	dst0 := st.name("app_dst", Add(data, Mul(u(la), esz)))
	lbBytes := st.name("app_lb", Mul(u(lb), esz))
	laBytes := st.name("app_la", Mul(u(la), esz))
	for _, m := range MemNames {
		if !li.mems[m] {
			continue
		}
		old := st.memArr(m)
		nw := st.declare(r.freshName(m+"_app"), memSort(m))
		k := Term{"a!p", BV(64, false)}
		inB := And(Le(dst0, k), Lt(k, Add(dst0, lbBytes)))
		inA := And(Not(fits), Le(data, k), Lt(k, Add(data, laBytes)))
		body := Ident(Select(nw, k), Ite(inB, Select(old, Add(b.F[0].(Term), Sub(k, dst0))),
			Ite(inA, Select(old, Add(a.F[0].(Term), Sub(k, data))), Select(old, k))))
		st.assume(Forall([]Term{k}, body), "append effect on "+m)
		st.mem[m] = nw
	}
	st.writes++
	return &StructVal{T: x.Type(), N: sliceFields, F: []Val{data, n, cp}}
}

// dynamicCall: a call through a function value (e.g. a type descriptor's
// Equal function). Modelled as an uninterpreted pure function of the function
// value and the scalar arguments; trusted: such functions do not write memory.
func (r *FnRun) dynamicCall(st *State, x *ssa.Call, args []Val) Val {
	r.E.Trusted["calls through function values (type-descriptor Equal/Hasher functions) are pure: result is an uninterpreted function of the function value, the arguments and the byte memory; no heap writes"] = true
	fv, ok := r.operand(st, x.Call.Value).(Term)
	if !ok {
		panic(unsupported("dynamic call of non-scalar function value"))
	}
	res := x.Call.Signature().Results()
	if res.Len() != 1 {
		panic(unsupported("dynamic call with other than one result"))
	}
	rs, ok := r.E.scalarSort(res.At(0).Type())
	if !ok {
		panic(unsupported("dynamic call with composite result"))
	}
	ts := []Term{fv}
	sorts := []string{fv.Sort.SMT()}
	for _, a := range args {
		t, ok := a.(Term)
		if !ok {
			panic(unsupported("dynamic call with composite argument"))
		}
		ts = append(ts, t)
		sorts = append(sorts, t.Sort.SMT())
	}
	ts = append(ts, st.memArr("M8"))
	sorts = append(sorts, memSort("M8").SMT())
	name := fmt.Sprintf("dyncall%d_%s", len(args), mangle(rs.SMT()))
	root := r
	for root.parent != nil {
		root = root.parent
	}
	if root.ghostDecls == nil {
		root.ghostDecls = map[string]string{}
	}
	root.ghostDecls[name] = fmt.Sprintf("(declare-fun %s (%s) %s)\n", name, strings.Join(sorts, " "), rs.SMT())
	return Term{app(name, ts...), rs}
}

// invoke: interface method call. A trusted contract keyed by the method's full
// name (e.g. "(io/fs.FileInfo).IsDir") is used when present; otherwise the
// call may do anything (heap havocked, result arbitrary).
func (r *FnRun) invoke(st *State, x *ssa.Call) Val {
	cc := x.Common()
	name := cc.Method.FullName()
	res := cc.Signature().Results()
	var result Val
	switch res.Len() {
	case 0:
	case 1:
		result = r.freshVal(st, "r_"+cc.Method.Name(), res.At(0).Type())
	default:
		result = r.freshVal(st, "r_"+cc.Method.Name(), res)
	}
	if c, ok := r.E.Contracts[name]; ok {
		r.E.Trusted["contract: "+c.Key+" ("+shortPath(c.File)+")"] = true
		pure := len(c.Modifies) > 0
		for _, m := range c.Modifies {
			if m != "nothing" {
				pure = false
			}
		}
		if !pure {
			r.havocAll(st)
		}
		return result
	}
	r.E.Notes["havoc: interface method call "+name+" without contract"] = true
	r.havocAll(st)
	return result
}

// checkEffect: effect allow-list (clause `effects <pkg>: A, B, T.M`): a call
// into a listed package must be to one of the allowed functions/methods.
func (r *FnRun) checkEffect(st *State, ins ssa.Instruction, cc *ssa.CallCommon) {
	if len(r.C.Effects) == 0 {
		return
	}
	var pkg, name string
	if cc.IsInvoke() {
		if cc.Method.Pkg() == nil {
			return
		}
		pkg = cc.Method.Pkg().Path()
		name = cc.Method.Name()
		if recv := cc.Signature().Recv(); recv != nil {
			if nt, ok := recv.Type().(*types.Named); ok {
				name = nt.Obj().Name() + "." + name
			}
		}
	} else {
		callee := cc.StaticCallee()
		if callee == nil || callee.Pkg == nil {
			return
		}
		pkg = callee.Pkg.Pkg.Path()
		name = shortCallee(callee)
	}
	allowed, listed := r.C.Effects[pkg]
	if !listed {
		return
	}
	ok := false
	for _, a := range allowed {
		if a == name {
			ok = true
		}
	}
	if !ok && osQueries[pkg+"."+name] {
		// queries cannot create, modify or remove a file-system object (trusted, listed)
		r.E.Trusted["library queries that do not mutate the file system: "+pkg+"."+name] = true
		return
	}
	if !ok {
		r.addGoal(st, "effects.allowed["+pkg+"."+name+"]", r.posOf(ins), False, nil)
	} else {
		r.addGoal(st, "effects.allowed["+pkg+"."+name+"]", r.posOf(ins), True, nil)
	}
}


// osQueries: functions of package os that only inspect (trusted): an effect
// allow-list restricts the MUTATORS a function may call, a query added by a
// harmless refactoring must not raise an alarm.
var osQueries = map[string]bool{
	"os.IsNotExist": true, "os.IsExist": true, "os.IsPermission": true, "os.IsTimeout": true,
	"os.Stat": true, "os.Lstat": true, "os.Getenv": true, "os.LookupEnv": true, "os.Environ": true,
	"os.Getwd": true, "os.Getpid": true, "os.Hostname": true, "os.UserHomeDir": true, "os.TempDir": true,
	"os.Executable": true, "os.SameFile": true, "os.IsPathSeparator": true, "os.ReadFile": true,
	"os.ReadDir": true, "os.Readlink": true,
	"os.File.Name": true, "os.File.Fd": true, "os.File.Stat": true, "os.File.Read": true, "os.File.ReadAt": true,
	"os.FileMode.IsDir": true, "os.FileMode.IsRegular": true, "os.FileMode.Perm": true, "os.FileMode.String": true, "os.FileMode.Type": true,
}

// autoInlinable: callee has a body, lives in the package of the function under
// contract, is loop-free and small, and is not already being expanded.
func (r *FnRun) autoInlinable(callee *ssa.Function) bool {
	root := r
	for root.parent != nil {
		root = root.parent
	}
	if root.Fn == nil || callee.Pkg == nil || callee.Pkg != root.Fn.Pkg || len(callee.Blocks) == 0 || len(callee.Blocks) > 40 || r.depth >= 3 {
		return false
	}
	if callee.Signature.Recv() != nil && len(callee.FreeVars) > 0 {
		return false
	}
	for p := r; p != nil; p = p.parent {
		if p.Fn == callee {
			return false // recursion
		}
	}
	for _, b := range callee.Blocks {
		for _, s := range b.Succs {
			if s.Dominates(b) {
				return false // loop
			}
		}
		for _, ins := range b.Instrs {
			switch ins.(type) {
			case *ssa.Go, *ssa.Defer, *ssa.Select, *ssa.RunDefers:
				return false
			}
		}
	}
	return true
}
