package vc

// Generic replay of a solver counterexample on the REAL code, for functions
// whose parameters and results are scalars (integers, booleans, floats,
// complex numbers): the function and everything of its package it refers to
// are extracted mechanically (go/ast + go/types) from /repo's working tree
// into a scratch main package, compiled with the host Go toolchain and run on
// the model's argument values. The failed clause is then re-evaluated on the
// concrete arguments and the OBSERVED results; the solver decides whether it is
// violated (confirmed) or holds (not reproduced: the model was an artefact of
// an abstraction in the verification condition).

import (
	"bytes"
	"fmt"
	"go/ast"
	"go/printer"
	"go/token"
	"go/types"
	"math/big"
	"os"
	"os/exec"
	"path/filepath"
	"sort"
	"strings"

	"golang.org/x/tools/go/packages"
)

// ReplaySolver is the solver used to evaluate a clause on concrete values.
var ReplaySolver *Solver

func scalarReplayable(t types.Type) bool {
	b, ok := t.Underlying().(*types.Basic)
	if !ok {
		return false
	}
	return b.Info()&(types.IsInteger|types.IsBoolean|types.IsFloat|types.IsComplex) != 0 && b.Kind() != types.UnsafePointer
}

// scalarReplay returns a replay function for an `ensures` clause (or nil when
// the function is outside the replayable class).
func (r *FnRun) scalarReplay(cl *Clause, kind string) func(model string, opts *Options) (map[string]interface{}, bool) {
	if r.parent != nil || r.Fn == nil || r.Fn.Syntax() == nil || r.ld == nil {
		return nil
	}
	sig := r.Fn.Signature
	if sig.Recv() != nil || sig.Variadic() {
		return nil
	}
	for i := 0; i < sig.Params().Len(); i++ {
		if !scalarReplayable(sig.Params().At(i).Type()) || sig.Params().At(i).Name() == "_" || sig.Params().At(i).Name() == "" {
			return nil
		}
	}
	for i := 0; i < sig.Results().Len(); i++ {
		if !scalarReplayable(sig.Results().At(i).Type()) {
			return nil
		}
	}
	return func(model string, opts *Options) (map[string]interface{}, bool) {
		return r.runScalarReplay(cl, kind, model, opts)
	}
}

// ---- model parsing

type sexp struct {
	atom string
	list []*sexp
}

func parseSexps(s string) []*sexp {
	var out []*sexp
	var stack [][]*sexp
	cur := []*sexp{}
	i := 0
	for i < len(s) {
		c := s[i]
		switch {
		case c == '(':
			stack = append(stack, cur)
			cur = []*sexp{}
			i++
		case c == ')':
			if len(stack) == 0 {
				i++
				continue
			}
			n := &sexp{list: cur}
			cur = append(stack[len(stack)-1], n)
			stack = stack[:len(stack)-1]
			i++
		case c == ' ' || c == '\n' || c == '\t' || c == '\r':
			i++
		case c == '|':
			j := strings.IndexByte(s[i+1:], '|')
			if j < 0 {
				j = len(s) - i - 1
			}
			cur = append(cur, &sexp{atom: s[i : i+j+2]})
			i += j + 2
		case c == ';':
			for i < len(s) && s[i] != '\n' {
				i++
			}
		default:
			j := i
			for j < len(s) && !strings.ContainsRune("() \n\t\r", rune(s[j])) {
				j++
			}
			cur = append(cur, &sexp{atom: s[i:j]})
			i = j
		}
	}
	out = cur
	return out
}

func (x *sexp) String() string {
	if x.list == nil {
		return x.atom
	}
	var parts []string
	for _, e := range x.list {
		parts = append(parts, e.String())
	}
	return "(" + strings.Join(parts, " ") + ")"
}

func modelValues(model string) map[string]*sexp {
	vals := map[string]*sexp{}
	var walk func(xs []*sexp)
	walk = func(xs []*sexp) {
		for _, x := range xs {
			if x.list == nil {
				continue
			}
			if len(x.list) == 5 && x.list[0].atom == "define-fun" && x.list[2].list != nil && len(x.list[2].list) == 0 {
				vals[x.list[1].atom] = x.list[4]
				continue
			}
			walk(x.list)
		}
	}
	walk(parseSexps(model))
	return vals
}

func rpBvLit(a string) (*big.Int, bool) {
	v := new(big.Int)
	switch {
	case strings.HasPrefix(a, "#x"):
		_, ok := v.SetString(a[2:], 16)
		return v, ok
	case strings.HasPrefix(a, "#b"):
		_, ok := v.SetString(a[2:], 2)
		return v, ok
	}
	return nil, false
}

// sexpBits: the value as an unsigned bit pattern of width w (floats: IEEE bits).
func sexpBits(x *sexp, s Sort) (*big.Int, bool) {
	switch s.K {
	case KBool:
		if x.atom == "true" {
			return big.NewInt(1), true
		}
		return big.NewInt(0), x.atom == "false"
	case KBV:
		if x.list == nil {
			return rpBvLit(x.atom)
		}
		if len(x.list) == 3 && x.list[0].atom == "_" && strings.HasPrefix(x.list[1].atom, "bv") {
			v, ok := new(big.Int).SetString(x.list[1].atom[2:], 10)
			return v, ok
		}
	case KInt:
		if x.list == nil {
			v, ok := new(big.Int).SetString(x.atom, 10)
			if ok && v.Sign() < 0 {
				v.Add(v, new(big.Int).Lsh(big.NewInt(1), uint(s.W)))
			}
			return v, ok
		}
		if len(x.list) == 2 && x.list[0].atom == "-" && x.list[1].list == nil {
			v, ok := new(big.Int).SetString(x.list[1].atom, 10)
			if ok {
				v.Neg(v)
				v.Add(v, new(big.Int).Lsh(big.NewInt(1), uint(s.W)))
			}
			return v, ok
		}
	case KFP:
		eb, sb := 11, 52
		if s.W == 32 {
			eb, sb = 8, 23
		}
		if x.list != nil && len(x.list) == 4 && x.list[0].atom == "fp" {
			sg, ok1 := rpBvLit(x.list[1].atom)
			ex, ok2 := rpBvLit(x.list[2].atom)
			mt, ok3 := rpBvLit(x.list[3].atom)
			if ok1 && ok2 && ok3 {
				v := new(big.Int).Lsh(sg, uint(eb+sb))
				v.Or(v, new(big.Int).Lsh(ex, uint(sb)))
				v.Or(v, mt)
				return v, true
			}
		}
		if x.list != nil && len(x.list) == 4 && x.list[0].atom == "_" {
			expAll := new(big.Int).Lsh(new(big.Int).Sub(new(big.Int).Lsh(big.NewInt(1), uint(eb)), big.NewInt(1)), uint(sb))
			sign := new(big.Int).Lsh(big.NewInt(1), uint(eb+sb))
			switch x.list[1].atom {
			case "+zero":
				return big.NewInt(0), true
			case "-zero":
				return sign, true
			case "+oo":
				return expAll, true
			case "-oo":
				return new(big.Int).Or(expAll, sign), true
			case "NaN":
				return new(big.Int).Or(expAll, new(big.Int).Lsh(big.NewInt(1), uint(sb-1))), true
			}
		}
	}
	return nil, false
}

func concreteTerm(bits *big.Int, s Sort) Term {
	switch s.K {
	case KBool:
		if bits.Sign() != 0 {
			return True
		}
		return False
	case KFP:
		return fpFromBits(BVConst(bits, s.W, false))
	case KInt:
		v := new(big.Int).Set(bits)
		if s.Signed && v.Bit(s.W-1) == 1 {
			v.Sub(v, new(big.Int).Lsh(big.NewInt(1), uint(s.W)))
		}
		return BVConst(v, s.W, s.Signed)
	}
	return BVConst(bits, s.W, s.Signed)
}

// goLiteral renders the bit pattern as a Go expression of type t (printed with
// the qualifier-free type name, valid inside the extracted package).
func goLiteral(bits *big.Int, t types.Type, s Sort) string {
	tn := types.TypeString(t, func(*types.Package) string { return "" })
	switch s.K {
	case KBool:
		if bits.Sign() != 0 {
			return tn + "(true)"
		}
		return tn + "(false)"
	case KFP:
		if s.W == 32 {
			return fmt.Sprintf("%s(zzmath.Float32frombits(0x%x))", tn, bits)
		}
		return fmt.Sprintf("%s(zzmath.Float64frombits(0x%x))", tn, bits)
	}
	v := new(big.Int).Set(bits)
	if s.Signed && v.Bit(s.W-1) == 1 {
		v.Sub(v, new(big.Int).Lsh(big.NewInt(1), uint(s.W)))
	}
	return fmt.Sprintf("%s(%s)", tn, v.String())
}

// ---- extraction

// extractClosure prints the declarations of fn and of every package-level
// object of the same package it (transitively) refers to. It fails when a
// referenced declaration needs a non-standard import.
func extractClosure(pkg *packages.Package, root types.Object) (decls string, imports []string, names []string, err error) {
	type declInfo struct {
		node ast.Node
		file *ast.File
	}
	declOf := map[types.Object]declInfo{}
	for _, f := range pkg.Syntax {
		for _, d := range f.Decls {
			switch x := d.(type) {
			case *ast.FuncDecl:
				if o := pkg.TypesInfo.Defs[x.Name]; o != nil {
					declOf[o] = declInfo{x, f}
				}
			case *ast.GenDecl:
				for _, sp := range x.Specs {
					switch y := sp.(type) {
					case *ast.ValueSpec:
						for _, n := range y.Names {
							if o := pkg.TypesInfo.Defs[n]; o != nil {
								declOf[o] = declInfo{x, f}
							}
						}
					case *ast.TypeSpec:
						if o := pkg.TypesInfo.Defs[y.Name]; o != nil {
							declOf[o] = declInfo{x, f}
						}
					}
				}
			}
		}
	}
	seenNode := map[ast.Node]bool{}
	var order []declInfo
	impSet := map[string]bool{}
	var visit func(o types.Object) error
	visit = func(o types.Object) error {
		di, ok := declOf[o]
		if !ok {
			if f, isF := o.(*types.Func); isF && f.Type().(*types.Signature).Recv() != nil {
				return nil // interface method or method declared elsewhere
			}
			return fmt.Errorf("no declaration found for %s", o.Name())
		}
		if seenNode[di.node] {
			return nil
		}
		seenNode[di.node] = true
		if fd, ok := di.node.(*ast.FuncDecl); ok && fd.Body == nil {
			return fmt.Errorf("%s has no Go body (linkname / assembly)", fd.Name.Name)
		}
		var ferr error
		ast.Inspect(di.node, func(n ast.Node) bool {
			id, ok := n.(*ast.Ident)
			if !ok || ferr != nil {
				return ferr == nil
			}
			u := pkg.TypesInfo.Uses[id]
			if u == nil {
				return true
			}
			if pn, ok := u.(*types.PkgName); ok {
				path := pn.Imported().Path()
				if strings.Contains(strings.SplitN(path, "/", 2)[0], ".") {
					ferr = fmt.Errorf("needs non-standard import %s", path)
					return false
				}
				if pn.Name() != pn.Imported().Name() {
					impSet[pn.Name()+" \""+path+"\""] = true
				} else {
					impSet["\""+path+"\""] = true
				}
				return true
			}
			if u.Pkg() == pkg.Types && u.Parent() == pkg.Types.Scope() {
				if e := visit(u); e != nil {
					ferr = e
				}
			} else if f, ok := u.(*types.Func); ok && u.Pkg() == pkg.Types && f.Type().(*types.Signature).Recv() != nil {
				if e := visit(u); e != nil {
					ferr = e
				}
			}
			return true
		})
		if ferr != nil {
			return ferr
		}
		order = append(order, di)
		return nil
	}
	if err = visit(root); err != nil {
		return "", nil, nil, err
	}
	var sb strings.Builder
	for _, di := range order {
		var buf bytes.Buffer
		node := di.node
		// drop doc comments (they may carry //go:linkname etc.)
		switch x := node.(type) {
		case *ast.FuncDecl:
			c := *x
			c.Doc = nil
			node = &c
			names = append(names, x.Name.Name)
		case *ast.GenDecl:
			c := *x
			c.Doc = nil
			node = &c
		}
		if e := printer.Fprint(&buf, pkg.Fset, node); e != nil {
			return "", nil, nil, e
		}
		sb.WriteString(buf.String())
		sb.WriteString("\n\n")
	}
	for k := range impSet {
		imports = append(imports, k)
	}
	sort.Strings(imports)
	return sb.String(), imports, names, nil
}

func (r *FnRun) runScalarReplay(cl *Clause, kind string, model string, opts *Options) (map[string]interface{}, bool) {
	doc := map[string]interface{}{"function": r.FnName, "clause": cl.Label}
	IntMode = r.intMode
	defer func() { IntMode = false }()
	var pkg *packages.Package
	packages.Visit(r.ld.Pkgs, nil, func(p *packages.Package) {
		if p.Types == r.Fn.Pkg.Pkg {
			pkg = p
		}
	})
	if pkg == nil {
		doc["error"] = "package syntax not loaded"
		return doc, false
	}
	decls, imports, names, err := extractClosure(pkg, r.Fn.Object())
	if err != nil {
		doc["error"] = "function cannot be extracted for replay: " + err.Error()
		return doc, false
	}
	doc["extracted_declarations"] = names
	vals := modelValues(model)
	sig := r.Fn.Signature
	type part struct {
		bits *big.Int
		s    Sort
	}
	concrete := map[string]Val{}
	var args []string
	argDoc := map[string]string{}
	for i := 0; i < sig.Params().Len(); i++ {
		p := sig.Params().At(i)
		v := r.params[p.Name()]
		get := func(t Term) *big.Int {
			if x, ok := vals[t.S]; ok {
				if b, ok := sexpBits(x, t.Sort); ok {
					return b
				}
			}
			return big.NewInt(0) // unconstrained in the model
		}
		switch x := v.(type) {
		case Term:
			b := get(x)
			concrete[p.Name()] = concreteTerm(b, x.Sort)
			lit := goLiteral(b, p.Type(), x.Sort)
			args = append(args, lit)
			argDoc[p.Name()] = lit
		case *StructVal: // complex
			re, im := x.F[0].(Term), x.F[1].(Term)
			br, bi := get(re), get(im)
			concrete[p.Name()] = &StructVal{N: x.N, F: []Val{concreteTerm(br, re.Sort), concreteTerm(bi, im.Sort)}}
			ft := types.Typ[types.Float64]
			if re.Sort.W == 32 {
				ft = types.Typ[types.Float32]
			}
			tn := types.TypeString(p.Type(), func(*types.Package) string { return "" })
			lit := fmt.Sprintf("%s(complex(%s, %s))", tn, goLiteral(br, ft, re.Sort), goLiteral(bi, ft, im.Sort))
			args = append(args, lit)
			argDoc[p.Name()] = lit
		default:
			doc["error"] = fmt.Sprintf("parameter %s is not a scalar in the model", p.Name())
			return doc, false
		}
	}
	doc["arguments"] = argDoc
	// the program
	var sb strings.Builder
	sb.WriteString("package main\n\nimport (\n\tzzfmt \"fmt\"\n\tzzmath \"math\"\n")
	for _, im := range imports {
		sb.WriteString("\t" + im + "\n")
	}
	sb.WriteString(")\n\nvar _ = zzmath.Pi\n\n")
	sb.WriteString(decls)
	sb.WriteString("func main() {\n\tdefer func() {\n\t\tif e := recover(); e != nil {\n\t\t\tzzfmt.Printf(\"ZZPANIC %v\\n\", e)\n\t\t}\n\t}()\n")
	nres := sig.Results().Len()
	var rn []string
	for i := 0; i < nres; i++ {
		rn = append(rn, fmt.Sprintf("r%d", i))
	}
	call := fmt.Sprintf("%s(%s)", r.Fn.Name(), strings.Join(args, ", "))
	if nres > 0 {
		fmt.Fprintf(&sb, "\t%s := %s\n", strings.Join(rn, ", "), call)
	} else {
		fmt.Fprintf(&sb, "\t%s\n", call)
	}
	for i := 0; i < nres; i++ {
		b := sig.Results().At(i).Type().Underlying().(*types.Basic)
		switch {
		case b.Info()&types.IsBoolean != 0:
			fmt.Fprintf(&sb, "\tif r%d {\n\t\tzzfmt.Println(\"ZZRES %d 1\")\n\t} else {\n\t\tzzfmt.Println(\"ZZRES %d 0\")\n\t}\n", i, i, i)
		case b.Kind() == types.Float32:
			fmt.Fprintf(&sb, "\tzzfmt.Printf(\"ZZRES %d %%d\\n\", zzmath.Float32bits(float32(r%d)))\n", i, i)
		case b.Kind() == types.Float64:
			fmt.Fprintf(&sb, "\tzzfmt.Printf(\"ZZRES %d %%d\\n\", zzmath.Float64bits(float64(r%d)))\n", i, i)
		case b.Kind() == types.Complex64:
			fmt.Fprintf(&sb, "\tzzfmt.Printf(\"ZZRES %d %%d %%d\\n\", zzmath.Float32bits(real(complex64(r%d))), zzmath.Float32bits(imag(complex64(r%d))))\n", i, i, i)
		case b.Kind() == types.Complex128:
			fmt.Fprintf(&sb, "\tzzfmt.Printf(\"ZZRES %d %%d %%d\\n\", zzmath.Float64bits(real(complex128(r%d))), zzmath.Float64bits(imag(complex128(r%d))))\n", i, i, i)
		case b.Info()&types.IsUnsigned != 0:
			fmt.Fprintf(&sb, "\tzzfmt.Printf(\"ZZRES %d %%d\\n\", uint64(r%d))\n", i, i)
		default:
			fmt.Fprintf(&sb, "\tzzfmt.Printf(\"ZZRES %d %%d\\n\", uint64(int64(r%d)))\n", i, i)
		}
	}
	sb.WriteString("}\n")
	dir := filepath.Join(opts.Scratch, "replay-"+mangle(r.FnName)+"-"+mangle(cl.Label))
	os.RemoveAll(dir)
	os.MkdirAll(dir, 0o755)
	defer os.RemoveAll(dir)
	os.WriteFile(filepath.Join(dir, "main.go"), []byte(sb.String()), 0o644)
	os.WriteFile(filepath.Join(dir, "go.mod"), []byte("module zzreplay\n\ngo 1.24\n"), 0o644)
	gobin := os.Getenv("GO")
	if gobin == "" {
		gobin = "go"
	}
	cmd := exec.Command(gobin, "run", ".")
	cmd.Dir = dir
	cmd.Env = append(os.Environ(), "GOFLAGS=-mod=mod", "GOWORK=off")
	out, rerr := cmd.CombinedOutput()
	text := string(out)
	doc["program_output"] = truncate(text, 2000)
	if rerr != nil && !strings.Contains(text, "ZZRES") && !strings.Contains(text, "ZZPANIC") {
		doc["error"] = "extracted program did not run: " + rerr.Error()
		doc["program"] = truncate(sb.String(), 6000)
		return doc, false
	}
	if i := strings.Index(text, "ZZPANIC "); i >= 0 {
		msg := strings.SplitN(text[i+8:], "\n", 2)[0]
		doc["real_code"] = "panicked: " + msg
		// a panic on inputs satisfying the precondition confirms a no-panic / safety obligation
		return doc, kind != "ensures"
	}
	if kind != "ensures" {
		doc["real_code"] = "returned normally"
		return doc, false
	}
	// observed results as concrete terms
	st := r.Entry.clone()
	env := r.env(st, st)
	env.nm = st
	for k, v := range concrete {
		env.vars[k] = v
	}
	var observed []Val
	for i := 0; i < nres; i++ {
		var f []string
		for _, l := range strings.Split(text, "\n") {
			if strings.HasPrefix(l, fmt.Sprintf("ZZRES %d ", i)) {
				f = strings.Fields(l)[2:]
			}
		}
		rt := sig.Results().At(i).Type()
		b := rt.Underlying().(*types.Basic)
		if b.Info()&types.IsComplex != 0 {
			if len(f) != 2 {
				doc["error"] = "missing result"
				return doc, false
			}
			w := 64
			if b.Kind() == types.Complex64 {
				w = 32
			}
			re, _ := new(big.Int).SetString(f[0], 10)
			im, _ := new(big.Int).SetString(f[1], 10)
			observed = append(observed, &StructVal{N: []string{"re", "im"}, F: []Val{concreteTerm(re, FPSort(w)), concreteTerm(im, FPSort(w))}})
			continue
		}
		if len(f) != 1 {
			doc["error"] = "missing result"
			return doc, false
		}
		bits, _ := new(big.Int).SetString(f[0], 10)
		s, _ := r.E.scalarSort(rt)
		if r.intMode && s.K == KBV && s.W == 64 {
			s = Sort{K: KInt, W: 64, Signed: s.Signed}
		}
		if s.K == KBV || s.K == KInt {
			bits.And(bits, new(big.Int).Sub(new(big.Int).Lsh(big.NewInt(1), uint(s.W)), big.NewInt(1)))
		}
		observed = append(observed, concreteTerm(bits, s))
	}
	o := &Outcome{Kind: "return", St: st, Results: observed}
	r.bindResults(env, o)
	var clause Term
	func() {
		defer func() {
			if x := recover(); x != nil {
				doc["error"] = fmt.Sprint("clause could not be evaluated on concrete values: ", x)
			}
		}()
		clause = env.evalBool(cl.E)
	}()
	if clause.S == "" {
		return doc, false
	}
	var obs []string
	for _, v := range observed {
		obs = append(obs, valString(v))
	}
	doc["observed_results"] = obs
	if ReplaySolver == nil {
		doc["error"] = "no solver for the concrete evaluation"
		return doc, false
	}
	g := &Goal{Run: r}
	q := ConcreteFP(RenderQuery(r.E.Specs.Prelude, st.log, clause, lazyDecls(g)))
	res := ReplaySolver.Solve(r.FnName+"/replay-"+cl.Label, q)
	doc["clause_on_observed_results"] = map[string]string{"unsat": "holds", "sat": "VIOLATED"}[res.Status]
	if res.Status == "sat" {
		doc["real_code"] = "returned results that violate the clause"
		return doc, true
	}
	if res.Status == "unsat" {
		doc["real_code"] = "returned results that satisfy the clause (counterexample not reproduced)"
	} else {
		doc["real_code"] = "clause on the observed results undecided: " + res.Status
	}
	return doc, false
}

func valString(v Val) string {
	switch x := v.(type) {
	case Term:
		return x.S
	case *StructVal:
		var p []string
		for _, f := range x.F {
			p = append(p, valString(f))
		}
		return "{" + strings.Join(p, ", ") + "}"
	}
	return fmt.Sprint(v)
}

var _ = token.NoPos
