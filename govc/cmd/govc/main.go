package main

import (
	"flag"
	"fmt"
	"os"
	"path/filepath"
	"strconv"

	"govc/internal/vc"
)

func usage() {
	fmt.Fprintln(os.Stderr, "usage: govc check <ID> [--tier quick|thorough] [--fn name] [--keep] | govc dump <moddir> <pkg> <func...>")
	os.Exit(2)
}

func main() {
	if len(os.Args) < 2 {
		usage()
	}
	switch os.Args[1] {
	case "annotate-params":
		// govc annotate-params <moddir> <pattern...>: prints "<file>:<func key>: //@ params ..." for every contract
		if len(os.Args) < 4 {
			usage()
		}
		if err := vc.PrintParamClauses(os.Args[2], os.Args[3:]); err != nil {
			fmt.Fprintln(os.Stderr, err)
			os.Exit(2)
		}
	case "check":
		fs := flag.NewFlagSet("check", flag.ExitOnError)
		tier := fs.String("tier", envOr("VERIF_TIER", "quick"), "quick|thorough")
		only := fs.String("fn", "", "only functions whose key contains this")
		keep := fs.Bool("keep", false, "keep SMT files and scratch")
		repo := fs.String("repo", envOr("VERIF_REPO", "/repo"), "repository root")
		verif := fs.String("verif", envOr("VERIF_DIR", "/verif"), "verif root")
		verbose := fs.Bool("v", false, "verbose")
		var overlays multi
		fs.Var(&overlays, "overlay", "orig=replacement file (repeatable): verify with orig replaced")
		if len(os.Args) < 3 {
			usage()
		}
		id := os.Args[2]
		fs.Parse(os.Args[3:])
		seed, _ := strconv.Atoi(envOr("VERIF_SEED", "0"))
		scratch := envOr("VERIF_SCRATCH", fmt.Sprintf("/var/tmp/verif-scratch.%d", os.Getpid()))
		os.MkdirAll(scratch, 0o755)
		opts := &vc.Options{RepoDir: *repo, VerifDir: *verif, Tier: *tier, Seed: seed, Scratch: scratch, KeepSMT: *keep, Verbose: *verbose, OnlyFn: *only}
		if len(overlays) > 0 {
			opts.Overlay = map[string][]byte{}
			opts.OverlayFiles = map[string]string{}
			for _, o := range overlays {
				var a, b string
				for i := 0; i < len(o); i++ {
					if o[i] == '=' {
						a, b = o[:i], o[i+1:]
						break
					}
				}
				data, err := os.ReadFile(b)
				if err != nil {
					fmt.Fprintln(os.Stderr, err)
					os.Exit(2)
				}
				opts.Overlay[a] = data
				opts.OverlayFiles[a] = b
			}
		}
		rep, code := vc.RunCheck(id, opts)
		if *verbose {
			for _, o := range rep.Obligs {
				fmt.Printf("  %-12s %-6s %s (%d goals, %.2fs) %v\n", o.Status, o.Kind, o.Name, o.Goals, o.Seconds, o.Solver)
			}
		}
		c2 := vc.Finish(rep, opts)
		if c2 > code {
			code = c2
		}
		if !*keep {
			os.RemoveAll(scratch)
		} else {
			fmt.Println("scratch kept:", scratch)
		}
		os.Exit(code)
	case "dump":
		if len(os.Args) < 5 {
			usage()
		}
		ld, err := vc.LoadModule(vc.Module{Dir: os.Args[2], Patterns: []string{os.Args[3]}}, nil)
		if err != nil {
			fmt.Fprintln(os.Stderr, err)
			os.Exit(2)
		}
		for _, p := range ld.SPkgs {
			if p == nil {
				continue
			}
			for _, fn := range os.Args[4:] {
				if f := vc.ResolveFunc(p, fn); f != nil {
					f.WriteTo(os.Stdout)
				}
			}
		}
	default:
		usage()
	}
}

type multi []string

func (m *multi) String() string     { return fmt.Sprint(*m) }
func (m *multi) Set(s string) error { *m = append(*m, s); return nil }

func envOr(k, d string) string {
	if v := os.Getenv(k); v != "" {
		return v
	}
	return d
}

var _ = filepath.Join
