package runtime

// Demonstration of the defect repaired by the "fix:" commit on semaAcquire
// (found by the failed obligation
// runtime.semaAcquire/waitinv.sleeps-only-after-seeing-zero-under-the-lock):
// a waiter that wakes up, reads a non-zero count and then LOSES the
// compare-and-swap to a concurrent fast-path acquirer went back to sleep
// although permits remained - with no release outstanding it sleeps forever
// (two sync.WaitGroup waiters, one still on its way into the semaphore, can
// deadlock this way). Uses the schedule-driving shims of this directory.

import (
	"sync/atomic"
	"testing"

	"github.com/goplus/llgo/runtime/internal/zzdemo/c11/sched"
)

func TestSemaCasLoserMustNotSleep(t *testing.T) {
	addr := new(uint32)
	s := sched.New()
	defer s.Stop()
	a := s.Go("A", func() { semaAcquire(addr) })
	s.Run(a)
	if !a.Blocked() {
		t.Fatalf("A should be parked on the empty semaphore")
	}
	for _, n := range []string{"R1", "R2"} {
		r := s.Go(n, func() { semaRelease(addr) })
		if !s.Run(r) {
			t.Fatalf("%s did not finish", n)
		}
	}
	if got := atomic.LoadUint32(addr); got != 2 {
		t.Fatalf("count = %d after two releases, want 2", got)
	}
	// A has been signalled: let it re-read the count (2) and stop right before its compare-and-swap
	if !s.RunUntil(a, func(op sched.Op) bool { return op.Name == "cas" }) {
		t.Fatalf("A did not reach its compare-and-swap (done=%v)", a.Done)
	}
	// a second acquirer takes one permit on the lock-free fast path: 2 -> 1
	b := s.Go("B", func() { semaAcquire(addr) })
	if !s.Run(b) {
		t.Fatalf("B did not get a permit")
	}
	// A's compare-and-swap(2 -> 1) now fails; one permit is left and nobody will release again
	s.Run(a)
	if !a.Done {
		t.Fatalf("LOST WAKE-UP: A went back to sleep although count=%d and every release has completed", atomic.LoadUint32(addr))
	}
	if got := atomic.LoadUint32(addr); got != 0 {
		t.Fatalf("final count = %d, want 0", got)
	}
}
