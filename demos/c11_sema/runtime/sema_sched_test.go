package runtime

// Drives the REAL semaAcquire / semaRelease (sema_llgo.go of the worktree,
// copied verbatim apart from the two import paths and the //go:linkname lines)
// through chosen interleavings.  Property C11: a semaphore waiter is admitted
// after a release under EVERY schedule (sync.Mutex/RWMutex/WaitGroup sit
// directly on these two functions).

import (
	"fmt"
	"math/rand"
	"strings"
	gosync "sync"
	"sync/atomic"
	"testing"
	"time"

	psync "github.com/goplus/llgo/runtime/internal/zzdemo/c11/psync"
	"github.com/goplus/llgo/runtime/internal/zzdemo/c11/sched"
)

func describe(s *sched.Sched, stuck []*sched.Thread) string {
	var b strings.Builder
	for _, t := range stuck {
		fmt.Fprintf(&b, " %s(blocked before/at %q)", t.Name, t.Pending.Name)
	}
	tr := s.Trace
	if len(tr) > 60 {
		tr = tr[len(tr)-60:]
	}
	return b.String() + "\n  trace: " + strings.Join(tr, " ")
}

// One acquirer A, one releaser R, count initially 0.
// Schedule: A runs up to (not including) the lock of the per-address state
// mutex; R then performs its complete release; A then runs on.
// On the shipped code A re-reads the count under the lock, sees the permit and
// returns.  A must never be left parked with a permit available and nobody
// left to signal.
func TestSemaReleaseBetweenCheckAndPark(t *testing.T) {
	addr := new(uint32)
	s := sched.New()
	defer s.Stop()
	a := s.Go("A", func() { semaAcquire(addr) })
	r := s.Go("R", func() { semaRelease(addr) })

	atStateLock := func(op sched.Op) bool {
		m, ok := op.Obj.(*psync.Mutex)
		return op.Name == "lock" && ok && m != &semaMu
	}
	if !s.RunUntil(a, atStateLock) {
		if a.Done {
			t.Fatalf("A acquired a permit from an empty semaphore")
		}
		t.Fatalf("A never reached the state lock")
	}
	if !s.Run(r) {
		t.Fatalf("releaser did not finish")
	}
	if got := atomic.LoadUint32(addr); got != 1 {
		t.Fatalf("after release count = %d, want 1", got)
	}
	s.Run(a)
	if !a.Done {
		st := getSemaStateQuiet(addr)
		t.Fatalf("LOST WAKE-UP: acquirer parked forever although count=%d (waiters=%d, release already completed)%s",
			atomic.LoadUint32(addr), st.waiters, describe(s, []*sched.Thread{a}))
	}
	if got := atomic.LoadUint32(addr); got != 0 {
		t.Fatalf("final count = %d, want 0", got)
	}
}

// getSemaStateQuiet looks the state up without going through the shims.
func getSemaStateQuiet(addr *uint32) *semaState {
	s := sched.New() // a scheduler with one helper thread, so that shims work
	var st *semaState
	h := s.Go("H", func() { st = getSemaState(addr) })
	s.Run(h)
	s.Stop()
	return st
}

// Random schedules at lock/atomic granularity, 4 threads.
// 2 semaphores x (1 acquirer + 1 releaser): every acquirer must return and
// both counts must end at 0, whatever the interleaving.
func TestSemaRandomSchedules(t *testing.T) {
	const seeds = 3000
	bad := 0
	for seed := int64(0); seed < seeds; seed++ {
		rng := rand.New(rand.NewSource(seed))
		a1, a2 := new(uint32), new(uint32)
		s := sched.New()
		s.Go("A1", func() { semaAcquire(a1) })
		s.Go("R1", func() { semaRelease(a1) })
		s.Go("A2", func() { semaAcquire(a2) })
		s.Go("R2", func() { semaRelease(a2) })
		stuck := s.Drain(rng.Intn)
		s.Stop()
		if len(stuck) != 0 {
			bad++
			if bad <= 3 {
				t.Errorf("seed %d: threads never finished (counts %d,%d):%s", seed,
					atomic.LoadUint32(a1), atomic.LoadUint32(a2), describe(s, stuck))
			}
			continue
		}
		if c1, c2 := atomic.LoadUint32(a1), atomic.LoadUint32(a2); c1 != 0 || c2 != 0 {
			bad++
			t.Errorf("seed %d: final counts %d,%d want 0,0", seed, c1, c2)
		}
	}
	if bad != 0 {
		t.Fatalf("%d of %d random schedules violate the semaphore guarantee", bad, seeds)
	}
}

// Real OS-thread stress (shims map to Go's sync / sync/atomic): ping-pong over
// two binary semaphores per pair, as a Mutex Lock/Unlock hand-off does.
func TestSemaStressRealThreads(t *testing.T) {
	const pairs, rounds = 8, 100000
	var wg gosync.WaitGroup
	var progress [pairs]int64
	for p := 0; p < pairs; p++ {
		s1, s2 := new(uint32), new(uint32)
		p := p
		wg.Add(2)
		go func() {
			defer wg.Done()
			for i := 0; i < rounds; i++ {
				semaAcquire(s1)
				semaRelease(s2)
				atomic.AddInt64(&progress[p], 1)
			}
		}()
		go func() {
			defer wg.Done()
			for i := 0; i < rounds; i++ {
				semaRelease(s1)
				semaAcquire(s2)
			}
		}()
	}
	done := make(chan struct{})
	go func() { wg.Wait(); close(done) }()
	select {
	case <-done:
	case <-time.After(20 * time.Second):
		var ps []int64
		for i := range progress {
			ps = append(ps, atomic.LoadInt64(&progress[i]))
		}
		t.Fatalf("HANG: ping-pong pairs stopped making progress (rounds done per pair %v of %d)", ps, rounds)
	}
}
