#!/bin/bash
# usage: [SEMA_SRC_REV=HEAD] run_demo.sh <llgo-worktree> [extra go-test-binary flags]
# Builds a scratch package (via -overlay, nothing is written into the worktree)
# from the worktree's REAL runtime/internal/lib/runtime/sema_llgo.go - only the
# two clite import paths are redirected to Go shims and the //go:linkname
# directives are dropped - and runs the schedule-driven + stress tests.
# Exit status 0 = property holds on all tests, non-zero = violation found.
set -u
WT=${1:?worktree path}; shift
HERE=$(cd "$(dirname "$0")" && pwd)
GO=${GO:-/root/go/pkg/mod/golang.org/toolchain@v0.0.1-go1.24.0.linux-amd64/bin/go}
export GOTOOLCHAIN=local GOSUMDB=off GOFLAGS=-mod=mod GOPROXY=off
TMP=$(mktemp -d /var/tmp/c11demo.XXXXXX)
trap 'rm -rf "$TMP"' EXIT
SRC=$WT/runtime/internal/lib/runtime/sema_llgo.go
# SEMA_SRC_REV=HEAD: take the file from that git revision of the worktree
# instead of the working copy (to run the demo against the unchanged code).
if [ -n "${SEMA_SRC_REV:-}" ]; then
  git -C "$WT" show "$SEMA_SRC_REV:runtime/internal/lib/runtime/sema_llgo.go" > "$TMP/orig.go" || exit 2
  SRC=$TMP/orig.go
fi
sed -e 's#github.com/goplus/llgo/runtime/internal/clite/pthread/sync#github.com/goplus/llgo/runtime/internal/zzdemo/c11/psync#' \
    -e 's#github.com/goplus/llgo/runtime/internal/lib/sync/atomic#github.com/goplus/llgo/runtime/internal/zzdemo/c11/latomic#' \
    -e '/^\/\/go:linkname /d' "$SRC" > "$TMP/sema_llgo.go"
V=$WT/runtime/internal/zzdemo/c11
cat > "$TMP/ov.json" <<JSON
{"Replace": {
 "$V/sched/sched.go": "$HERE/sched/sched.go",
 "$V/psync/psync.go": "$HERE/psync/psync.go",
 "$V/latomic/atomic.go": "$HERE/latomic/atomic.go",
 "$V/runtime/stubs.go": "$HERE/runtime/stubs.go",
 "$V/runtime/sema_llgo.go": "$TMP/sema_llgo.go",
 "$V/runtime/sema_sched_test.go": "$HERE/runtime/sema_sched_test.go",
 "$V/runtime/sema_casloser_test.go": "$HERE/runtime/sema_casloser_test.go"
}}
JSON
cd "$WT/runtime" || exit 2
"$GO" test -vet=off -overlay "$TMP/ov.json" -c -o "$TMP/c11demo.test" ./internal/zzdemo/c11/runtime/ || { echo "BUILD FAILED"; exit 2; }
"$TMP/c11demo.test" -test.v -test.timeout 180s "$@"
