module chandemo

go 1.24
