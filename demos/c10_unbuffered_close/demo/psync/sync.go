// Package sync is a Go stand-in for runtime/internal/clite/pthread/sync
// (pthread mutex + condition variable) with the same method surface.
package sync

import gosync "sync"

type MutexAttr struct{}
type CondAttr struct{}

type Mutex struct{ mu gosync.Mutex }

func (m *Mutex) Init(attr *MutexAttr) int32 { return 0 }
func (m *Mutex) Destroy()                   {}
func (m *Mutex) Lock()                      { m.mu.Lock() }
func (m *Mutex) Unlock()                    { m.mu.Unlock() }

// Cond: waiters register under c.mu while still holding the user mutex, so a
// Signal/Broadcast issued after the user mutex is released cannot be lost.
type Cond struct {
	mu      gosync.Mutex
	waiters []chan struct{}
}

func (c *Cond) Init(attr *CondAttr) int32 { return 0 }
func (c *Cond) Destroy()                  {}

func (c *Cond) Wait(m *Mutex) {
	ch := make(chan struct{})
	c.mu.Lock()
	c.waiters = append(c.waiters, ch)
	c.mu.Unlock()
	m.Unlock()
	<-ch
	m.Lock()
}

func (c *Cond) Signal() {
	c.mu.Lock()
	if len(c.waiters) > 0 {
		close(c.waiters[0])
		c.waiters = c.waiters[1:]
	}
	c.mu.Unlock()
}

func (c *Cond) Broadcast() {
	c.mu.Lock()
	for _, ch := range c.waiters {
		close(ch)
	}
	c.waiters = nil
	c.mu.Unlock()
}
