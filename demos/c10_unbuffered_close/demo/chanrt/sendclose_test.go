package runtime

// Demonstration: on an UNBUFFERED channel a receiver that has been handed a
// value must report ok=true even when the channel is closed right after the
// hand-off (`ch <- v; close(ch)` with a consumer in `for v := range ch`).
// ChanRecv decides `recvOK = !p.close` after waking up, so when the sender's
// close wins the race for the mutex the delivered value is reported as
// (zero, false) and a range loop silently loses the last element.

import (
	"testing"
	"unsafe"
)

const isz = int(unsafe.Sizeof(int(0)))

func TestUnbufferedSendThenClose(t *testing.T) {
	lost := 0
	const rounds = 2000
	for i := 0; i < rounds; i++ {
		ch := NewChan(isz, 0)
		done := make(chan struct{})
		var v int
		var ok bool
		go func() {
			ok = ChanRecv(ch, unsafe.Pointer(&v), isz)
			close(done)
		}()
		x := 41 + i
		ChanSend(ch, unsafe.Pointer(&x), isz) // returns only after a receiver took the value
		ChanClose(ch)
		<-done
		if !ok || v != x {
			lost++
			if lost <= 3 {
				t.Logf("round %d: sender delivered %d and then closed; receiver got (%d, %v)", i, x, v, ok)
			}
		}
	}
	if lost > 0 {
		t.Fatalf("%d of %d delivered values were reported as (_, false)", lost, rounds)
	}
}
