#!/bin/bash
# usage: run_demo.sh [repo-or-worktree]  (default /repo)
# Compiles  func f(p *[10]int64, i, j int) []int64 { return p[i:j] }  with the real cl package of the
# given tree and runs the emitted code under lli with p == nil (run-time functions replaced by printing
# stubs). Go: nil-dereference panic at the slice expression. Before fix fa81633: "NewSlice3 nilbase=1".
WT=${1:-/repo}
GO=${GO:-/root/go/pkg/mod/golang.org/toolchain@v0.0.1-go1.24.0.linux-amd64/bin/go}
export GOTOOLCHAIN=local GOSUMDB=off GOFLAGS=-mod=mod GOPROXY=off
SCR=$(mktemp -d /var/tmp/c03nil.XXXXXX)
trap 'rm -rf "$SCR"' EXIT
echo "{\"Replace\":{\"$WT/ssa/zz_verif_emit_cl_test.go\":\"/verif/harness/c03_emit_cl_test.go\"}}" > "$SCR/ov.json"
(cd "$WT" && VERIF_EMIT_OUT="$SCR/out.ll" "$GO" test -tags llvm14 -overlay "$SCR/ov.json" -vet=off -count=1 -run TestZZVerifEmitCL ./ssa/ >/dev/null) || exit 2
RT='github.com/goplus/llgo/runtime/internal/runtime.'
{
cat <<LL
%"${RT}Slice" = type { i8*, i64, i64 }
declare i32 @printf(i8*, ...)
declare void @exit(i32)
@pan = private constant [10 x i8] c"NILPANIC\0A\00"
@ns3 = private constant [40 x i8] c"NewSlice3 nilbase=%d lo=%lld hi=%lld\0A\00\00\00"
define void @"${RT}AssertNilDeref"(i1 %c) {
  br i1 %c, label %p, label %ok
p:
  %1 = call i32 (i8*, ...) @printf(i8* getelementptr inbounds ([10 x i8], [10 x i8]* @pan, i32 0, i32 0))
  call void @exit(i32 0)
  unreachable
ok:
  ret void
}
define %"${RT}Slice" @"${RT}NewSlice3"(i8* %b, i64 %e, i64 %c, i64 %lo, i64 %hi, i64 %mx) {
  %n = icmp eq i8* %b, null
  %nz = zext i1 %n to i32
  %1 = call i32 (i8*, ...) @printf(i8* getelementptr inbounds ([40 x i8], [40 x i8]* @ns3, i32 0, i32 0), i32 %nz, i64 %lo, i64 %hi)
  ret %"${RT}Slice" undef
}
LL
awk '/^define .*@clslice__arrptr__int__ij\(/{p=1} p{print} p&&/^}/{exit}' "$SCR/out.ll.cl" | sed 's/\[10 x i64\]\*/i8*/g'
cat <<LL
define i32 @main() {
  %r = call %"${RT}Slice" @clslice__arrptr__int__ij(i8* null, i64 2, i64 5)
  ret i32 0
}
LL
} > "$SCR/case.ll"
echo "--- emitted code for p[i:j], p *[10]int64:"
awk '/^define .*@clslice__arrptr__int__ij\(/{p=1} p{print} p&&/^}/{exit}' "$SCR/out.ll.cl"
echo "--- run with p = nil, i = 2, j = 5 (Go: panic: nil pointer dereference):"
OUT=$(lli-14 "$SCR/case.ll")
echo "$OUT"
case "$OUT" in NILPANIC*) echo "RESULT: panics as Go mandates"; exit 0;; *) echo "RESULT: DEFECT - no panic, slicing continues with base nil"; exit 1;; esac
