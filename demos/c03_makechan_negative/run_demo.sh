#!/bin/bash
# usage: run_demo.sh [repo-or-worktree]  (default /repo)
WT=${1:-/repo}
GO=${GO:-/root/go/pkg/mod/golang.org/toolchain@v0.0.1-go1.24.0.linux-amd64/bin/go}
export GOTOOLCHAIN=local GOSUMDB=off GOFLAGS=-mod=mod GOPROXY=off
SCR=$(mktemp -d /var/tmp/c03demo.XXXXXX)
trap 'rm -rf "$SCR"' EXIT
cp -r /verif/harness/c10_sched/. "$SCR/"
rm -f "$SCR/chanrt/explore_test.go"
cp /verif/demos/c03_makechan_negative/neg_test.go "$SCR/chanrt/"
sed -e 's#c "github.com/goplus/llgo/runtime/internal/clite"#c "chansched/c"#' \
    -e 's#"github.com/goplus/llgo/runtime/internal/clite/pthread/sync"#"chansched/psync"#' \
    "$WT/runtime/internal/runtime/z_chan.go" > "$SCR/chanrt/z_chan.go" || exit 2
cd "$SCR" && "$GO" test -vet=off -count=1 -v -run TestMakeChanNegative ./chanrt/
