package runtime

// Demonstration of the defect repaired by the "fix:" commit on NewChan:
// make(chan T, n) with a negative (run-time) n must panic
// ("makechan: size out of range"); NewChan returned an unbuffered channel.

import "testing"

func TestMakeChanNegative(t *testing.T) {
	defer func() {
		if r := recover(); r == nil {
			t.Fatalf("NewChan(8, -1) returned a channel instead of panicking")
		} else if e, ok := r.(error); !ok || e.Error() != "makechan: size out of range" {
			t.Fatalf("NewChan(8, -1) panicked with %v, want makechan: size out of range", r)
		}
	}()
	NewChan(8, -1)
}
