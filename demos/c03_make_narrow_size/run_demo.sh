#!/bin/bash
# usage: run_demo.sh [repo-or-worktree]  (default /repo)
# Compiles  func f(n int8) chan int64 { return make(chan int64, n) }  (and the map form) with the real
# cl package of the given tree and lets llvm-as check the emitted function. Before fix f6d4188 the
# run-time function is called with an i8 argument for its i64 parameter: invalid IR.
WT=${1:-/repo}
GO=${GO:-/root/go/pkg/mod/golang.org/toolchain@v0.0.1-go1.24.0.linux-amd64/bin/go}
export GOTOOLCHAIN=local GOSUMDB=off GOFLAGS=-mod=mod GOPROXY=off
SCR=$(mktemp -d /var/tmp/c03mk.XXXXXX)
trap 'rm -rf "$SCR"' EXIT
echo "{\"Replace\":{\"$WT/ssa/zz_verif_emit_cl_test.go\":\"/verif/harness/c03_emit_cl_test.go\"}}" > "$SCR/ov.json"
(cd "$WT" && VERIF_EMIT_OUT="$SCR/out.ll" "$GO" test -tags llvm14 -overlay "$SCR/ov.json" -vet=off -count=1 -run TestZZVerifEmitCL ./ssa/ >/dev/null) || exit 2
RT='github.com/goplus/llgo/runtime/internal/runtime.'
rc=0
for f in clmake__chan__int8__n clmake__chan__uint16__n; do
  {
    echo "%\"${RT}Chan\" = type opaque"
    echo "declare %\"${RT}Chan\"* @\"${RT}NewChan\"(i64, i64)"
    awk -v f="@$f(" 'index($0,"define ")==1 && index($0,f){p=1} p{print} p&&/^}/{exit}' "$SCR/out.ll.cl" | sed 's/ #0 {/ {/'
  } > "$SCR/$f.ll"
  echo "--- $f:"; grep "call" "$SCR/$f.ll"
  if llvm-as-14 -o /dev/null "$SCR/$f.ll" 2>"$SCR/err"; then echo "llvm-as: valid"; else echo "llvm-as: $(head -1 "$SCR/err")"; rc=1; fi
done
[ $rc = 0 ] && echo "RESULT: the size operand is converted to int" || echo "RESULT: DEFECT - invalid IR for make(chan T, n) with a narrow n"
exit $rc
