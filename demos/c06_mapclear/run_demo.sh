#!/bin/sh
# usage: run_demo.sh [repo-or-worktree]   (default /repo)
# Extracts the real map.go, the z_map.go wrappers and the stubs.go helpers of the
# given tree exactly as the C06 bounded check does, adds this demo test, runs it.
WT=${1:-/repo}
. /verif/env.sh
S=$(mktemp -d /var/tmp/c06demo.XXXXXX)
trap 'rm -rf "$S"' EXIT
R=$WT/runtime/internal/runtime
sed -e 's/^package runtime/package mapx/' -e '/^\/\/go:linkname/d' $R/map.go > $S/map.go
python3 - "$R" "$S" <<'PY'
import re,sys
R,S=sys.argv[1:3]
src=open(R+'/z_map.go').read()
out=['package mapx\n\nimport "unsafe"\n\nvar _ unsafe.Pointer\n\ntype Map = hmap\n']
out.append(re.search(r'type llgoMapIter struct \{.*?\n\}\n',src,re.S).group(0))
for n in ['MakeMap','MapAssign','MapAccess1','MapAccess2','MapDelete','MapClear','NewMapIter','MapIterNext','MapLen']:
    out.append(re.search(r'func %s\(.*?\n\}\n'%n,src,re.S).group(0))
open(S+'/zmap.go','w').write("\n".join(out))
src=open(R+'/stubs.go').read()
out=['package mapx\n\nimport "unsafe"\n\nvar _ unsafe.Pointer\n']
for n in ['add','roundupsize','memclrHasPointers','memclrNoHeapPointers']:
    out.append(re.search(r'func %s\(.*?\n\}\n'%n,src,re.S).group(0))
open(S+'/stubs.go','w').write("\n".join(out))
PY
P=$WT/runtime/internal/zzverif/mapx
cat > $S/ov.json <<JSON
{"Replace":{"$P/map.go":"$S/map.go","$P/zmap.go":"$S/zmap.go","$P/stubs.go":"$S/stubs.go","$P/shim.go":"/verif/harness/c06_map/shim.go","$P/map_test.go":"/verif/harness/c06_map/map_test.go","$P/clear_demo_test.go":"/verif/demos/c06_mapclear/clear_demo_test.go"}}
JSON
cd $WT/runtime && $GO test -overlay $S/ov.json -vet=off -c -o $S/bin ./internal/zzverif/mapx/ || exit 2
cd $S && VERIF_C06_DEMO=1 timeout 60 ./bin -test.run TestDemoClearThenReuse -test.v
