package mapx

// Demonstration of the defect repaired by the "fix:" commit on
// memclrNoHeapPointers / memclrHasPointers (runtime/internal/runtime/stubs.go):
// both were EMPTY functions. mapclear relies on them (through makeBucketArray's
// dirtyalloc path) to wipe the reused bucket array - in particular the overflow
// pointers. With empty functions, clear(m) on a map that had overflow buckets
// leaves the old chains linked; later insertions reuse them and range loops
// produce keys twice, report a wrong len, or never return (cyclic chain).
//
// Runs inside the extraction harness of /verif/harness/c06_map (same package):
//   see run_demo.sh

import (
	"fmt"
	"os"
	"testing"
	"time"
	"unsafe"

	"github.com/goplus/llgo/runtime/abi"
)

func TestDemoClearThenReuse(t *testing.T) {
	if os.Getenv("VERIF_C06_DEMO") == "" {
		t.Skip("VERIF_C06_DEMO not set")
	}
	allocBudget = 64 << 20
	mt := mkMapType(mcfg{name: "demo", hash: func(k uint64, seed uintptr) uintptr { return 0 }, domain: 64})
	h := MakeMap(mt, 0)
	put := func(k, v uint64) {
		p := MapAssign(mt, h, unsafe.Pointer(&k))
		*(*uint64)(p) = v
	}
	done := make(chan string, 1)
	go func() { done <- demoRounds(mt, h, put) }()
	select {
	case msg := <-done:
		if msg != "" {
			t.Fatal(msg)
		}
	case <-time.After(10 * time.Second):
		t.Fatal("a map operation after clear(m) did not return within 10 s (cyclic overflow chain)")
	}
}

func demoRounds(mt *abi.MapType, h *hmap, put func(k, v uint64)) string {
	for round := 0; round < 4; round++ {
		for k := uint64(0); k < 200; k++ {
			put(uint64(round)*1000+k, k)
		}
		if MapLen(h) != 200 {
			return fmt.Sprintf("round %d: len = %d after 200 insertions into an empty map", round, MapLen(h))
		}
		seen := map[uint64]int{}
		it := NewMapIter(mt, h)
		for n := 0; ; n++ {
			ok, kp, _ := MapIterNext(it)
			if !ok {
				break
			}
			seen[*(*uint64)(kp)]++
			if n > 5000 {
				return fmt.Sprintf("round %d: range does not terminate", round)
			}
		}
		for k, c := range seen {
			if c != 1 {
				return fmt.Sprintf("round %d: range produced key %d %d times", round, k, c)
			}
			if k/1000 != uint64(round) {
				return fmt.Sprintf("round %d: range produced key %d, which was removed by clear", round, k)
			}
		}
		if len(seen) != 200 {
			return fmt.Sprintf("round %d: range produced %d distinct keys, want 200", round, len(seen))
		}
		MapClear(mt, h)
		if MapLen(h) != 0 {
			return fmt.Sprintf("round %d: len = %d after clear", round, MapLen(h))
		}
	}
	return ""
}
