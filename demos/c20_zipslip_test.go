package crosscompile

// Demonstration for the C20 finding (zip-slip in extractZip): run with
//   go test -overlay <json mapping /repo/internal/crosscompile/zz_zipslip_test.go to this file> -run TestZZZipSlip ./internal/crosscompile/
// Fails on the tree before the fix (a file is created outside dest), passes after.

import (
	"archive/zip"
	"os"
	"path/filepath"
	"testing"
)

func TestZZZipSlip(t *testing.T) {
	root := t.TempDir()
	dest := filepath.Join(root, "dest")
	os.MkdirAll(dest, 0o755)
	zf := filepath.Join(root, "evil.zip")
	f, _ := os.Create(zf)
	w := zip.NewWriter(f)
	e, _ := w.Create("../escape.txt")
	e.Write([]byte("pwned"))
	w.Close()
	f.Close()
	err := extractZip(zf, dest)
	if _, serr := os.Stat(filepath.Join(root, "escape.txt")); serr == nil {
		t.Fatalf("entry ../escape.txt was written outside the destination (err=%v)", err)
	}
	if err == nil {
		t.Fatalf("escaping entry was not rejected with an error")
	}
}
