#!/usr/bin/env python3
"""Regenerates MANIFEST.json from the table below (single source of truth)."""
import json, subprocess
NA = {
"C01":"whole-compiler semantic preservation over all programs, optimisation levels and package splits: no set of function contracts within reach implies it (function-sized pieces are claimed under C02/C03/C05)",
"C04":"defer/panic/recover ordering is realised by emitted IR using sigsetjmp/siglongjmp and computed block addresses; not expressible as pre/postconditions of the builder or runtime functions; recover depends on caller history",
"C09":"oracle is the host C compiler's platform ABI; mechanism is a whole-module IR-to-IR rewrite (internal/cabi); no contract can state it without a formal ABI model",
"C12":"initialisation order is the joint effect of go/ssa's synthetic init, emitted guards, patched-package renaming and the generated entry module; only observable on linked multi-package programs",
"C13":"non-interference of the whole build pipeline over histories of file-system edits; a contract on the fingerprint function can say what it hashes, not what the compiler reads",
"C14":"uniqueness/consistency of link names quantifies over sets of entities of whole programs and the linker's merging; needs an inductive string-language injectivity proof outside SMT's reach",
"C15":"6000-line reflect re-implementation compared with another program's (reference toolchain) text output for every value of every type; no independent contract to verify against",
"C16":"behaviour dominated by filepath.Glob/WalkDir/os.Lstat and the oracle is cmd/go's embed resolution; no independent specification other than re-stating the code",
"C19":"marshalling is emitted IR calling the CPython C API; oracle is a live interpreter",
}
PENDING = "not claimed yet: contracts for this property are still under construction (DESIGN.md section 8); it moves to checks when its obligations discharge"
TECH = "contract-based deductive verification: //@ contracts on the real functions, VCs by symbolic execution (WP) over go/ssa of /repo's working tree, discharged by z3 5.1 / z3 4.8 / cvc5"
CHECKS = {
"C02": dict(
  text="Denotational contract of the real lowering functions ssa.Builder.BinOp/UnOp/Convert: for every compile-time case (15 binary operators x 11 integer types, both shifts x 11x11 (operand, count) type pairs, unary -,^,!, all 11x11 integer conversions, sampled constant operands; {+,-,*,/,==,!=,<,<=,>,>=} and unary - on both float types, every conversion between the 11 integer and 2 float types and between the float types: 1159 cases, enumerated completely) and ALL run-time operand values, the emitted code panics exactly when Go mandates (division by zero, negative shift count, with the right runtime assertion), and otherwise has no LLVM undefined behaviour, yields no poison and denotes exactly the Go-spec result (wrap-around, truncated division, minInt/-1, shift saturation judged on the count's own type, comparisons by signedness, sign/zero extension by source type; IEEE-754 round-to-nearest-even arithmetic, comparisons false on NaN except !=, int->float rounding by source signedness, float->int truncation whenever the truncated value is representable). The functions are executed on LLVM parameters (staged symbolic execution: the emitted IR is the symbolic result); obligations over it are discharged by SMT (bit-vector and FloatingPoint theories). Complex division: runtime.Complex128Div and its helpers are verified function by function against spec functions transcribed from the Go reference algorithm (Smith + C99 Annex G corrections): helpers with real IEEE operations, the main function modularly over the helpers' contracts.",
  note="Method note: the compile-time inputs are enumerated (finite, complete for integer and float types), the run-time inputs are symbolic; integer division/remainder and floating-point * and / are first treated as uninterpreted functions shared by spec and implementation (valid => valid), a sat answer is re-decided with the real operators. Counterexamples are replayed: emitted IR under lli vs the host Go toolchain; Complex128Div extracted from the working tree and run on the model's operands. Trusted: LLVM LangRef semantics as transcribed (c02.go), LLVM passes/back ends, host lli for replay, SMT-LIB FP = IEEE-754 with a single NaN (a NaN operand with its sign bit set makes llgo's copysign differ from the gc runtime's in the sign of a zero result: outside the Go spec, see DESIGN.md). NOT decided: complex + - * == != (aggregate lowering), that cl passes go/ssa operands unchanged, 32-bit targets (W=32), float->int of non-representable values (implementation-defined).",
  ref="DESIGN.md §3 C02"),
"C03": dict(
  text="Proof (for all argument values, no bound) that the run-time functions every slice expression, string slice and make([]T) is lowered to panic exactly when Go mandates it, before any heap write, and with the mandated message; obligations generated from /repo's current source on every run.",
  note="Decided: NewSlice3 (all 2-/3-index slice forms funnel here), StringSlice, MakeSlice (+ messages), send on / close of a closed channel and close of a nil channel (ChanSend, ChanTrySend, ChanClose; decided at the commit point under the channel lock). Compiler side (staged symbolic execution as for C02, 175 cases): Builder.IndexAddr/Index emit an AssertIndexRange check that fires exactly when the index - judged in its own type, for all 11 index types, arrays/slices/strings, and sampled constant indexes - is out of range; Builder.Slice hands low/high to NewSlice3/StringSlice value-preservingly. Not decided here: nil-dereference via SIGSEGV handler, recover-ability (C04), failed type assertion CFG, placement of checks by the compiler, send on a nil channel (Go spec: blocks forever), nil-map clause (see DESIGN.md). Trusted: go/ssa+go/types, SMT solvers, runtime/math.MulUintptr, allocator contract. Integers are 64-bit bit-vectors (W=64 only).",
  ref="DESIGN.md §3 C03"),
"C06": dict(
  text="Proof of the sub-claims a hash map rests on and that are carried by small functions: hash/equality coherence for float and complex keys (equal keys - including +0/-0 - hash alike; proved with the SMT floating-point theory over the IEEE bit patterns, as lemmas over the verified postconditions of f32hash/f64hash/c64hash/c128hash and f32equal..c128equal), strhash hashes exactly the string's bytes, an unhashable dynamic key type makes interhash/nilinterhash panic and only then, efaceeq/ifaceeq (nil, direct-interface and uncomparable cases), and the representation helpers tophash (>= minTopHash), bucketShift/bucketMask, isEmpty, evacuated, overLoadFactor (never for <= 8 entries), tooManyOverflowBuckets. BOUNDED stand-in (labelled bounded, not counted as proved) for the finite-map refinement: the real map.go and the operation/iteration wrappers of z_map.go are extracted mechanically from the working tree (dropped: package clause, //go:linkname lines), linked against a hand-written environment (allocation, memmove, random source) and driven against Go's own map with pseudo-random operation sequences under hash functions from constant to well mixed, including range loops mutated by their body and started in the middle of a grow.",
  note="NOT decided by proof: the finite-map refinement of mapassign/mapaccess/mapdelete/evacuate/mapiternext (1700 lines of bucket arithmetic over raw memory; bounded stand-in only: uint64 keys/values, quick 2800 sequences of 400 operations, thorough 42000 of 500), typehash/structequal/arrayequal recursion, nil-map read/write behaviour, indirect keys/elems, NaN keys. Trusted: memhash is a function of seed and bytes, fastrand, calls through type-descriptor function values are pure; for the bounded run the environment shim harness/c06_map/shim.go.",
  ref="DESIGN.md §3 C06"),
"C05": dict(
  text="Proof (all inputs, all loop iterations via invariants) of functional contracts taken from the property: append/grow/copy/slice header arithmetic, storage sharing, byte-exact prefix/appended contents incl. overlap and zero-size elements; UTF-8 decode/encode against Unicode Table 3-6/3-7 spec functions and their round-trip lemma; string concat/equality/ordering/iteration/conversions.",
  note="Trusted: libc memcpy/memmove/memset contracts (memcpy requires non-overlap: obligation), allocator freshness, clite.Advance, go 'make'. GrowSlice/SliceAppend/SliceCopy are verified under stated size bounds (etSize < 2^16, cap,num < 2^28) in int mode with explicit no-overflow obligations; typed and raw memory views assumed disjoint. StringToRunes/StringFromRunes: see evidence (loop safety only).",
  ref="DESIGN.md §3 C05"),
}
m = {
 "version":1,
 "setup_cmd":"./setup.sh",
 "hooks":{"guard":"verif","enable":"contract files zz_verif_contracts*.go carry //go:build verif and contain comments only; govc parses them directly from /repo's working tree (no build of /repo needed)","baseline_off_cmd":"for m in . ./runtime; do (cd /repo/$m && go test -mod=mod -json -vet=off -count=1 -timeout 25m ./...); done","source_commits":[],"add_only":True},
 "engines":[{"name":"govc","path":"/verif/govc","serves_properties":sorted(CHECKS),"kind_free_text":"self-written VC generator: contracts (//@ comments) + symbolic execution over go/ssa of /repo's working tree + SMT portfolio (z3-new, z3, cvc5)"}],
 "checks":[], "not_applicable":[], "notes":"See DESIGN.md. ./check <ID> --tier quick|thorough; selftest/run.py runs the must-fail mutant corpus."
}
for pid in sorted(CHECKS):
    c = CHECKS[pid]
    m["checks"].append({"property_id":pid,"quick_cmd":"./check %s --tier quick"%pid,"thorough_cmd":"./check %s --tier thorough"%pid,
      "evidence_file":"/verif/evidence/%s.json"%pid,"replay_cmd_template":"./check %s --replay {path}"%pid,"engine":"govc",
      "level_claimed":{"category":c.get("cat","proof"),"text":c["text"],"design_ref":c["ref"]},"level_note":c["note"],"technique":c.get("tech",TECH)})
for pid in ["C%02d"%i for i in range(1,21)]:
    if pid in CHECKS: continue
    m["not_applicable"].append({"property_id":pid,"reason":NA.get(pid,PENDING)})
try:
    out = subprocess.run(["git","-C","/repo","log","--format=%H %s"],capture_output=True,text=True).stdout
    m["hooks"]["source_commits"] = [l.split()[0] for l in out.splitlines() if l.split(" ",1)[1].startswith("verif:")]
except Exception: pass
json.dump(m,open("/verif/MANIFEST.json","w"),indent=1)
print("checks:",sorted(CHECKS))
