#!/usr/bin/env python3
"""Regenerates MANIFEST.json from the table below (single source of truth)."""
import json, subprocess
NA = {
"C01":"whole-compiler semantic preservation over all programs, optimisation levels and package splits: no set of function contracts within reach implies it (function-sized pieces are claimed under C02/C03/C05)",
"C04":"defer/panic/recover ordering is realised by emitted IR using sigsetjmp/siglongjmp and computed block addresses; not expressible as pre/postconditions of the builder or runtime functions; recover depends on caller history",
"C09":"oracle is the host C compiler's platform ABI; mechanism is a whole-module IR-to-IR rewrite (internal/cabi); no contract can state it without a formal ABI model",
"C12":"initialisation order is the joint effect of go/ssa's synthetic init, emitted guards, patched-package renaming and the generated entry module; only observable on linked multi-package programs",
"C13":"non-interference of the whole build pipeline over histories of file-system edits; a contract on the fingerprint function can say what it hashes, not what the compiler reads",
"C14":"uniqueness/consistency of link names quantifies over sets of entities of whole programs and the linker's merging; needs an inductive string-language injectivity proof outside SMT's reach",
"C15":"6000-line reflect re-implementation compared with another program's (reference toolchain) text output for every value of every type; no independent contract to verify against",
"C16":"behaviour dominated by filepath.Glob/WalkDir/os.Lstat and the oracle is cmd/go's embed resolution; no independent specification other than re-stating the code",
"C19":"marshalling is emitted IR calling the CPython C API; oracle is a live interpreter",
}
PENDING = "not claimed yet: contracts for this property are still under construction (DESIGN.md section 8); it moves to checks when its obligations discharge"
TECH = "contract-based deductive verification: //@ contracts on the real functions, VCs by symbolic execution (WP) over go/ssa of /repo's working tree, discharged by z3 5.1 / z3 4.8 / cvc5"
CHECKS = {
"C02": dict(
  text="Denotational contract of the real lowering functions ssa.Builder.BinOp/UnOp/Convert: for every compile-time case (15 binary operators x 11 integer types, both shifts x 11x11 (operand, count) type pairs, unary -,^,!, all 11x11 integer conversions, plus sampled constant operands: 1089 cases, enumerated completely) and ALL run-time operand values, the emitted code panics exactly when Go mandates (division by zero, negative shift count, with the right runtime assertion), and otherwise has no LLVM undefined behaviour, yields no poison and denotes exactly the Go-spec result (wrap-around, truncated division, minInt/-1, shift saturation judged on the count's own type, comparisons by signedness, sign/zero extension by source type). The functions are executed on LLVM parameters (staged symbolic execution: the emitted IR is the symbolic result); obligations over it are discharged by SMT.",
  note="Method note: the compile-time inputs are enumerated (finite, complete for integer types), the run-time inputs are symbolic; division/remainder are first treated as uninterpreted functions shared by spec and implementation (valid => valid), a sat answer is re-decided with the real operators. Trusted: LLVM LangRef semantics as transcribed (c02.go), LLVM passes/back ends, host lli for replay. NOT decided: float/complex arithmetic and float<->int conversions, Complex128Div, that cl passes go/ssa operands unchanged, 32-bit targets (W=32).",
  ref="DESIGN.md §3 C02"),
"C03": dict(
  text="Proof (for all argument values, no bound) that the run-time functions every slice expression, string slice and make([]T) is lowered to panic exactly when Go mandates it, before any heap write, and with the mandated message; obligations generated from /repo's current source on every run.",
  note="Decided: NewSlice3 (all 2-/3-index slice forms funnel here), StringSlice, MakeSlice (+ messages), send on / close of a closed channel and close of a nil channel (ChanSend, ChanTrySend, ChanClose; decided at the commit point under the channel lock). Compiler side (staged symbolic execution as for C02, 175 cases): Builder.IndexAddr/Index emit an AssertIndexRange check that fires exactly when the index - judged in its own type, for all 11 index types, arrays/slices/strings, and sampled constant indexes - is out of range; Builder.Slice hands low/high to NewSlice3/StringSlice value-preservingly. Not decided here: nil-dereference via SIGSEGV handler, recover-ability (C04), failed type assertion CFG, placement of checks by the compiler, send on a nil channel (Go spec: blocks forever), nil-map clause (see DESIGN.md). Trusted: go/ssa+go/types, SMT solvers, runtime/math.MulUintptr, allocator contract. Integers are 64-bit bit-vectors (W=64 only).",
  ref="DESIGN.md §3 C03"),
"C06": dict(
  text="Proof of the sub-claims a hash map rests on and that are carried by small functions: hash/equality coherence for float and complex keys (equal keys - including +0/-0 - hash alike; proved with the SMT floating-point theory over the IEEE bit patterns, as lemmas over the verified postconditions of f32hash/f64hash/c64hash/c128hash and f32equal..c128equal), strhash hashes exactly the string's bytes, an unhashable dynamic key type makes interhash/nilinterhash panic and only then, efaceeq/ifaceeq (nil, direct-interface and uncomparable cases), and the representation helpers tophash (>= minTopHash), bucketShift/bucketMask, isEmpty, evacuated, overLoadFactor (never for <= 8 entries), tooManyOverflowBuckets.",
  note="NOT decided: the finite-map refinement of mapassign/mapaccess/mapdelete/evacuate/mapiternext (1700 lines of bucket arithmetic over raw memory), iteration order clauses, typehash/structequal/arrayequal recursion, nil-map read/write behaviour. Trusted: memhash is a function of seed and bytes, fastrand, calls through type-descriptor function values are pure.",
  ref="DESIGN.md §3 C06"),
"C07": dict(
  text="Proof of the run-time side of interface satisfaction and interface equality for all method tables: Implements(T,V) (both the interface and the concrete-type scan) returns true exactly when every method of T has a method of V with equal name and equal type descriptor, given strictly sorted tables (loop invariants with forall/exists); findMethod returns the interface-call entry of exactly the matching method; EfaceEqual (nil, different types, direct payload, uncomparable => panic).",
  note="ASSUMED, not proved: compiler-emitted method tables are strictly sorted by one total order on names (string order for findMethod). NOT decided: injectivity of the type-naming scheme (ssa/abi structHash/TypeName) modulo types.Identical incl. struct tags, linker merging, method dispatch through itabs; abi.Type.Uncommon/Methods/Kind are trusted contracts; names compared through an uninterpreted order-embedding of string contents.",
  ref="DESIGN.md §3 C07"),
"C10": dict(
  text="Proof by monitor (lock-invariant) reasoning, valid under every interleaving and with spurious wake-ups: for buffered channels every critical section of ChanSend/ChanTrySend/ChanRecv/chanTryRecv/ChanClose/ChanLen preserves the ring-buffer invariant (0<=len<=cap, 0<=getp<cap, fixed buffer), a successful send writes exactly the slot (getp+len) mod cap with the sender's bytes and increments len, a successful receive delivers slot getp, advances getp and decrements len, nothing else in the buffer changes, a receive yields ok=false only when closed and empty; protected fields are only touched under the lock.",
  note="Not decided: unbuffered rendezvous protocol, Select/TrySelect commitment, every liveness clause (wake-ups, no avoidable deadlock), the lemma from ring-buffer steps to the abstract FIFO sequence (argued in DESIGN.md). Trusted: pthread mutual exclusion, memcpy, notifyOps touches only selectOp state, eltSize consistent across calls (< 2^16, cap < 2^28), chanbuf(p) fixed by NewChan.",
  ref="DESIGN.md §3 C10"),
"C11": dict(
  text="Proof (monitor reasoning + ghost accounting of atomic operations, every interleaving): semaAcquire returns only after exactly one successful CompareAndSwap(addr, v, v-1) with v != 0 and performs no other write to the semaphore word (no acquire without a permit: the safety half of Mutex/RWMutex/WaitGroup built on it); semaRelease adds exactly one permit; waiter count only touched under its lock and every lock released on exit; notifyListAdd hands out ticket wait-1; notifyListWait returns only when its ticket has been notified (wrap-aware less(t, notify)); NotifyOne advances notify by at most one, NotifyAll stores once.",
  note="Not decided: go-statement lowering, atomics lowering tables and total order of atomics (hardware/LLVM memory model), every liveness clause (admission of waiters, wake-ups), Once/WaitGroup code of the standard library itself. Trusted: atomics indivisible, pthread mutual exclusion, getSemaState/getNotifyState return the unique non-nil state object.",
  ref="DESIGN.md §3 C11"),
"C17": dict(
  text="Proof (all inputs) for shellparse.Parse: every index is in range, the scan terminates, an error is never returned together with an argument list, nothing but freshly allocated memory is written. BOUNDED stand-in (labelled bounded, not counted as proved) for the round-trip clause: the real Parse and SplitPkgConfigFlags are run on every argument list whose documented quoted form has at most K characters (quick K=8: ~3*10^5 lists; thorough K=10) over an alphabet of letters, blank, tab, both quotes, backslash, '-', '$' and non-ASCII, and must split back to exactly the original list.",
  note="Proof part trusts strings.Builder / unicode.IsSpace / []rune(string) contracts (contents not modelled). The round trip is decided only up to the bound. SplitPkgConfigFlags' index safety is covered by the bounded run only. NOT applicable: build-tag evaluation, $VAR/$(cmd) expansion, flag merging (library code outside the repository; oracle is the go tool).",
  ref="DESIGN.md §3 C17"),
"C18": dict(
  text="Proof that (*Loader).mergeConfig implements the property's merge law for EVERY field of targets.Config as it is in the working tree: the contract is generated from the struct type at check time (string: nearest non-empty definer wins; bool: or; []string: concatenation in order, element-wise; Name and *src unchanged; nothing else written). A field added and not merged, a dropped if, or replace-instead-of-append fails that field's obligation.",
  note="resolveInheritance/Load/HasInheritance/GetInherits are verified against generated contracts for the memory discipline of the fold (every mergeConfig call meets mergeConfig's separation preconditions: the result's lists are owned by the invocation, parents' lists are not; errors propagate; the name is kept). Not decided: the ORDER of the fold (parents in inherits order, then own) and the cyclic-parent clause (unbounded recursion on a cycle: see DESIGN.md §10); JSON decoding (encoding/json) trusted. Assumes dst's list arrays are disjoint from src's arrays and both objects (true in resolveInheritance where dst is fresh); strings compared by representation; Go append semantics trusted.",
  ref="DESIGN.md §3 C18"),
"C20": dict(
  text="Proof, for every archive entry name (unconstrained symbolic string), that extractTarGz and extractZip call a file-system-creating function (os.MkdirAll, os.OpenFile, os.Create) only with a path proved to lie lexically below the destination (or to be the destination itself for parent directories), that an entry for which this cannot be established ends the extraction with an error before any such call, and that these functions call no other file-system mutator (effect allow-list: no Symlink/Link/Rename/Chmod/...), so links in archives are never materialised.",
  note="The path argument rests on TRUSTED lemmas about the Go standard library (/verif/specs/paths.smt2): filepath.Join returns a Clean'ed path; a cleaned path with prefix Clean(dest)+separator lies below dest; Dir of a confined path is confined or dest. NOT decided: byte-exact contents (io.Copy, archive readers), the concurrent-requests clause (flock+rename across processes), .tar.xz (delegated to the external tar program, trusted), dispatch in downloadAndExtractArchive. Deferred Close calls are not executed in the model.",
  ref="DESIGN.md §3 C20"),
"C05": dict(
  text="Proof (all inputs, all loop iterations via invariants) of functional contracts taken from the property: append/grow/copy/slice header arithmetic, storage sharing, byte-exact prefix/appended contents incl. overlap and zero-size elements; UTF-8 decode/encode against Unicode Table 3-6/3-7 spec functions and their round-trip lemma; string concat/equality/ordering/iteration/conversions.",
  note="Trusted: libc memcpy/memmove/memset contracts (memcpy requires non-overlap: obligation), allocator freshness, clite.Advance, go 'make'. GrowSlice/SliceAppend/SliceCopy are verified under stated size bounds (etSize < 2^16, cap,num < 2^28) in int mode with explicit no-overflow obligations; typed and raw memory views assumed disjoint. StringToRunes/StringFromRunes: see evidence (loop safety only).",
  ref="DESIGN.md §3 C05"),
}
m = {
 "version":1,
 "setup_cmd":"./setup.sh",
 "hooks":{"guard":"verif","enable":"contract files zz_verif_contracts*.go carry //go:build verif and contain comments only; govc parses them directly from /repo's working tree (no build of /repo needed)","baseline_off_cmd":"for m in . ./runtime; do (cd /repo/$m && go test -mod=mod -json -vet=off -count=1 -timeout 25m ./...); done","source_commits":[],"add_only":True},
 "engines":[{"name":"govc","path":"/verif/govc","serves_properties":sorted(CHECKS),"kind_free_text":"self-written VC generator: contracts (//@ comments) + symbolic execution over go/ssa of /repo's working tree + SMT portfolio (z3-new, z3, cvc5)"}],
 "checks":[], "not_applicable":[], "notes":"See DESIGN.md. ./check <ID> --tier quick|thorough; selftest/run.py runs the must-fail mutant corpus."
}
for pid in sorted(CHECKS):
    c = CHECKS[pid]
    m["checks"].append({"property_id":pid,"quick_cmd":"./check %s --tier quick"%pid,"thorough_cmd":"./check %s --tier thorough"%pid,
      "evidence_file":"/verif/evidence/%s.json"%pid,"replay_cmd_template":"./check %s --replay {path}"%pid,"engine":"govc",
      "level_claimed":{"category":"proof","text":c["text"],"design_ref":c["ref"]},"level_note":c["note"],"technique":TECH})
for pid in ["C%02d"%i for i in range(1,21)]:
    if pid in CHECKS: continue
    m["not_applicable"].append({"property_id":pid,"reason":NA.get(pid,PENDING)})
try:
    out = subprocess.run(["git","-C","/repo","log","--format=%H %s"],capture_output=True,text=True).stdout
    m["hooks"]["source_commits"] = [l.split()[0] for l in out.splitlines() if l.split(" ",1)[1].startswith("verif:")]
except Exception: pass
json.dump(m,open("/verif/MANIFEST.json","w"),indent=1)
print("checks:",sorted(CHECKS))
